//! unit: u20
//! properties: C20
//! novaclemmas: lemma hypotheses here are index ranges and existence of ancestors only
//! note: lightning-block-sync: check_builds_on refuses headers that do not connect; find_difference_from_header returns a common ancestor of both tips and a parent-linked chain of new blocks
//! trusted: BlockHash is an opaque identity (u64 stand-in; equality is identity, hash collisions excluded); Work / Target / Header are stubs whose ==, +, <, > follow the PartialEqSpecImpl/AddSpecImpl/PartialOrdSpecImpl models declared here; Header::work()/target() and Target::*_transition_threshold* are external_body with unconstrained results; BlockSourceError::persistent is an external_body constructor
//! trusted: HeaderCache::look_up returns a well-formed header of the requested hash (cache invariant, assumed); the Poll implementation is instantiated (R5) by a stub Poller whose look_up_previous_header returns a header that passed check_builds_on against `header` (that is what ChainPoller does)
//! trusted: R15 (deep slice): find_difference_from_best_block: the height distance the filter_map closure gives the idx-th entry of BlockLocator::previous_blocks, verbatim; the lookups themselves (cache, poller) are not sliced
//! trusted: SpvClient::poll_best_tip is extracted whole; the stub Poller's poll_chain_tip carries the contract proved for ChainPoller::poll_chain_tip in this unit (better = strictly more work, hash different from the known tip's header) plus, assumed as for look_up_previous_header, that a validated header is a block of the chain model (wf)
//! trusted: listener part: ChainNotifier is instantiated (R5) as Notifier { header_cache, chain_listener: &mut Listener } (the real field is a shared reference to a listener with interior state); the Listener stub carries the ghost field `tip` and the trace preconditions; HeaderCache::{blocks_disconnected, block_connected} external_body (no effect on the listener); Poller::fetch_block returns a block whose hash is the requested header's (ChainPoller validates it); `drain(..).rev()` rewritten into pop() (R6); find_difference_from_header restated as an external_body callee contract in the Notifier impl (it is verified, same text, in the ChainNotifier impl above)
//! trusted: poller part: `fn f(..) -> impl Future<Output = T> + Send + 'a { async move { B } }` is written `async fn f(..) -> T { B }` (R5, same body); ChainPoller<B, T> is instantiated with a stub block source whose get_best_block / get_header return anything (any source); Header::validate_pow / block_hash are external_body returning the uninterpreted hash_of(header); `.map_err(BlockSourceError::persistent)` gets an explicit closure (R8); Validate::T is spelled out
//! trusted: R15 (deep slices): init::synchronize_listeners: the test that decides whether a fetched block is handed to a listener and the match that hands it over (listener = stub that records what it is told; `&L` written `&mut` as for ChainNotifier; ValidatedBlock = Box<BlockData> skeleton), the batch size / truncation pair of the fetch loop (with the function-local const MAX_BLOCKS_AT_ONCE of the production configuration), and the test that keeps the longest list of blocks to connect, verbatim as functions; fetching (futures), the header cache and the per-listener disconnection (ChainNotifier, above) are dropped and not claimed here
//! trusted: block_validation: `impl Validate for BlockData :: fn validate` extracted whole against header / block stubs (proof of work, merkle root and witness commitment uninterpreted; validate_pow returns the header's own hash on success); R5: the associated type Self::T is written ValidatedBlock, R8: the function path given to map_err is a closure over the unit error; ChainPoller::fetch_block is extracted against a source that may answer anything (R5: the `impl Future` wrapper written `async fn`, the header reduced to its hash)
//! assume: block sources never report the height u32::MAX (check_builds_on computes previous_header.height + 1 in u32)
//! assume: the served block tree is consistent: one parent and one height per block hash (parent_of/height_of uninterpreted)
//! assume: a header the poller stub hands back (poll_chain_tip's tip, look_up_previous_header's parent) carries the true height of its block in the served tree (`wf`): what is PROVED is the link between neighbours - every header a walk steps back from was checked by check_builds_on against the header stepped to, cached or fetched (finding F13) - which anchors the claimed heights where the walk meets a cached header or the chain the listener is on; a source that gives different answers for one hash, or a reported tip that is itself an ancestor of the known tip (DESIGN O16), is not excluded by any check
//! assume: termination of the walk is not claimed (needs a genesis assumption): partial correctness only
//! trusted: assume_specification for core::cmp::max / core::cmp::min (std definitions): present in every unit so that a change that introduces them is verified instead of being rejected by the tool
use vstd::prelude::*;
verus! {
use core::cmp;
pub assume_specification<T: core::cmp::Ord>[core::cmp::max::<T>](a: T, b: T) -> (r: T)
    ensures T::obeys_cmp_spec() ==> r == (if b.cmp_spec(&a) == core::cmp::Ordering::Less { a } else { b });
pub assume_specification<T: core::cmp::Ord>[core::cmp::min::<T>](a: T, b: T) -> (r: T)
    ensures T::obeys_cmp_spec() ==> r == (if b.cmp_spec(&a) == core::cmp::Ordering::Less { b } else { a });
use vstd::std_specs::cmp::*;
use vstd::std_specs::ops::*;
use core::ops::Deref;
// ---- env ----
#[derive(Clone, Copy)] pub struct BlockHash(pub u64);
impl PartialEqSpecImpl for BlockHash { open spec fn obeys_eq_spec() -> bool { true } open spec fn eq_spec(&self, other: &BlockHash) -> bool { self.0 == other.0 } }
impl PartialEq for BlockHash { fn eq(&self, o: &BlockHash) -> (r: bool) { self.0 == o.0 } }
#[derive(Clone, Copy)] pub struct Work(pub u64);
impl PartialEqSpecImpl for Work { open spec fn obeys_eq_spec() -> bool { true } open spec fn eq_spec(&self, other: &Work) -> bool { self.0 == other.0 } }
impl PartialEq for Work { fn eq(&self, o: &Work) -> (r: bool) { self.0 == o.0 } }
impl AddSpecImpl<Work> for Work {
    open spec fn obeys_add_spec() -> bool { true }
    open spec fn add_req(self, rhs: Work) -> bool { true }
    open spec fn add_spec(self, rhs: Work) -> Work { Work(((self.0 + rhs.0) % 0x1_0000_0000_0000_0000) as u64) }
}
impl core::ops::Add<Work> for Work { type Output = Work; #[verifier::external_body] fn add(self, rhs: Work) -> (r: Work) { Work(self.0.wrapping_add(rhs.0)) } }
impl PartialOrdSpecImpl for Work {
    open spec fn obeys_partial_cmp_spec() -> bool { true }
    open spec fn partial_cmp_spec(&self, other: &Work) -> Option<core::cmp::Ordering> {
        if self.0 < other.0 { Some(core::cmp::Ordering::Less) } else if self.0 == other.0 { Some(core::cmp::Ordering::Equal) } else { Some(core::cmp::Ordering::Greater) } }
}
impl PartialOrd for Work { #[verifier::external_body] fn partial_cmp(&self, o: &Work) -> (r: Option<core::cmp::Ordering>) { self.0.partial_cmp(&o.0) } }
#[derive(Clone, Copy)] pub struct Target(pub u64);
impl PartialEqSpecImpl for Target { open spec fn obeys_eq_spec() -> bool { true } open spec fn eq_spec(&self, other: &Target) -> bool { self.0 == other.0 } }
impl PartialEq for Target { fn eq(&self, o: &Target) -> (r: bool) { self.0 == o.0 } }
impl PartialOrdSpecImpl for Target {
    open spec fn obeys_partial_cmp_spec() -> bool { true }
    open spec fn partial_cmp_spec(&self, other: &Target) -> Option<core::cmp::Ordering> {
        if self.0 < other.0 { Some(core::cmp::Ordering::Less) } else if self.0 == other.0 { Some(core::cmp::Ordering::Equal) } else { Some(core::cmp::Ordering::Greater) } }
}
impl PartialOrd for Target { #[verifier::external_body] fn partial_cmp(&self, o: &Target) -> (r: Option<core::cmp::Ordering>) { self.0.partial_cmp(&o.0) } }
#[derive(Clone, Copy)] pub struct Header { pub prev_blockhash: BlockHash, pub bits: u32 }
impl Header {
    #[verifier::external_body] pub fn work(&self) -> (r: Work) ensures r == work_of(*self) { unimplemented!() }
    #[verifier::external_body] pub fn target(&self) -> Target { unimplemented!() }
}
impl Target {
    #[verifier::external_body] pub fn min_transition_threshold(&self) -> Target { unimplemented!() }
    #[verifier::external_body] pub fn max_transition_threshold_unchecked(&self) -> Target { unimplemented!() }
}
pub uninterp spec fn work_of(h: Header) -> Work;
#[derive(Clone, Copy)] pub enum Network { Bitcoin, Testnet, Testnet4, Signet, Regtest }
pub struct BlockSourceError {}
impl BlockSourceError { #[verifier::external_body] pub fn persistent(msg: &str) -> BlockSourceError { unimplemented!() } }
//@extract lightning-block-sync/src/lib.rs :: type BlockSourceResult
//@end
//@extract lightning-block-sync/src/lib.rs :: struct BlockHeaderData
//@derive Clone Copy
//@end
//@extract lightning-block-sync/src/poll.rs :: struct ValidatedBlockHeader
//@derive Clone Copy
//@end
impl core::ops::Deref for ValidatedBlockHeader {
	type Target = BlockHeaderData;
//@extract lightning-block-sync/src/poll.rs :: impl std::ops::Deref for ValidatedBlockHeader :: fn deref
//@ret r
//@ensures A deref-is-the-inner-header-data
    *r == self.inner
//@end
}

// the (unknown) block tree served by the sources: every hash has one parent and one height
pub uninterp spec fn parent_of(h: BlockHash) -> BlockHash;
pub uninterp spec fn height_of(h: BlockHash) -> int;
// a validated header is consistent with the tree (this is what Poll::look_up_previous_header establishes via check_builds_on)
pub open spec fn wf(h: ValidatedBlockHeader) -> bool {
    h.inner.header.prev_blockhash == parent_of(h.block_hash) && h.inner.height as int == height_of(h.block_hash)
    && height_of(parent_of(h.block_hash)) + 1 == height_of(h.block_hash)
}
pub open spec fn nth_parent(h: BlockHash, n: nat) -> BlockHash decreases n { if n == 0 { h } else { nth_parent(parent_of(h), (n - 1) as nat) } }
pub open spec fn is_ancestor(a: BlockHash, b: BlockHash) -> bool { exists|n: nat| nth_parent(b, n) == a }


pub struct HeaderCache {}
impl HeaderCache {
    #[verifier::external_body]
	pub fn look_up(&self, block_hash: &BlockHash) -> (r: Option<&ValidatedBlockHeader>)
        ensures r is Some ==> r->Some_0.block_hash == *block_hash && wf(*r->Some_0)   // cache invariant (assumed)
    { unimplemented!() }
}
// what check_builds_on establishes between a header and the header it was validated against
pub open spec fn builds_on(h: ValidatedBlockHeader, prev: ValidatedBlockHeader) -> bool {
    h.inner.header.prev_blockhash == prev.block_hash && h.inner.height == prev.inner.height + 1
}
pub struct Poller {}
impl Poller {
    // the contract proved for ChainPoller::poll_chain_tip below, plus (assumed, as for look_up_previous_header) that a validated header is a block of the chain model
    #[verifier::external_body]
    async fn poll_chain_tip(&self, best_known_chain_tip: ValidatedBlockHeader) -> (r: BlockSourceResult<ChainTip>)
        ensures r is Ok ==> match r->Ok_0 {
            ChainTip::Common => true,
            ChainTip::Better(t) => t.inner.chainwork.0 > best_known_chain_tip.inner.chainwork.0 && t.block_hash != hash_of(best_known_chain_tip.inner.header) && wf(t),
            ChainTip::Worse(t) => t.inner.chainwork.0 <= best_known_chain_tip.inner.chainwork.0 && t.block_hash != hash_of(best_known_chain_tip.inner.header) && wf(t),
        }
    { unimplemented!() }
    #[verifier::external_body]
	async fn look_up_previous_header(&mut self, header: &ValidatedBlockHeader) -> (r: BlockSourceResult<ValidatedBlockHeader>)
        ensures r is Ok ==> r->Ok_0.block_hash == header.inner.header.prev_blockhash && wf(r->Ok_0) && builds_on(*header, r->Ok_0)   // builds_on: proved for ChainPoller below
    { unimplemented!() }
    // Poll::check_builds_on (finding F13): the contract proved for ChainPoller::check_builds_on below
    #[verifier::external_body]
	fn check_builds_on(&self, header: &ValidatedBlockHeader, previous_header: &ValidatedBlockHeader) -> (r: BlockSourceResult<()>)
        ensures r is Ok ==> builds_on(*header, *previous_header)
    { unimplemented!() }
}
pub struct ChainNotifier<'a> { pub header_cache: &'a mut HeaderCache }
//@extract lightning-block-sync/src/lib.rs :: struct ChainDifference
//@end

pub proof fn lemma_nth_step(h: BlockHash, n: nat)
    ensures nth_parent(h, n + 1) == parent_of(nth_parent(h, n))
    decreases n
{
    reveal_with_fuel(nth_parent, 3);
    if n > 0 { lemma_nth_step(parent_of(h), (n - 1) as nat); assert(nth_parent(h, n + 1) == nth_parent(parent_of(h), n)); }
}

pub proof fn lemma_anc_step(top: BlockHash, a: BlockHash, b: BlockHash)
    requires is_ancestor(a, top), b == a || b == parent_of(a)
    ensures is_ancestor(b, top)
{
    if b != a {
        let n = choose|n: nat| nth_parent(top, n) == a;
        lemma_nth_step(top, n);
        assert(nth_parent(top, n + 1) == b);
    }
}
// connected_blocks is a parent-linked chain from `top` down to a child of `bottom`
pub open spec fn linked(s: Seq<ValidatedBlockHeader>, top: BlockHash, bottom: BlockHash) -> bool {
    if s.len() == 0 { top == bottom } else {
        &&& s[0].block_hash == top
        &&& forall|k: int| 0 <= k < s.len() ==> wf(#[trigger] s[k])
        &&& forall|k: int| 0 <= k < s.len() - 1 ==> (#[trigger] s[k]).inner.header.prev_blockhash == s[k + 1].block_hash
        &&& s[s.len() - 1].inner.header.prev_blockhash == bottom
    }
}


impl<'a> ChainNotifier<'a> {
//@extract lightning-block-sync/src/lib.rs :: impl ChainNotifier :: fn look_up_previous_header
//@rw R5
    <P: Poll>
//@with
//@rw R5
    &mut P
//@with
    &mut Poller
//@ret r
//@ensures A previous-header-is-the-parent-and-well-formed
    r is Ok ==> r->Ok_0.block_hash == header.inner.header.prev_blockhash && wf(r->Ok_0)
//@ensures P C20 the-header-a-walk-steps-back-from-was-checked-to-build-on-the-header-it-steps-to-whether-that-one-came-from-the-cache-or-from-the-source
    r is Ok ==> builds_on(*header, r->Ok_0),
//@mutant cached_parent_handed_back_without_checking_that_the_header_builds_on_it
    chain_poller.check_builds_on(header, prev_header)?;
//@with
    
//@end

    #[verifier::exec_allows_no_decreases_clause]
//@extract lightning-block-sync/src/lib.rs :: impl ChainNotifier :: fn find_difference_from_header
//@rw R5
    <P: Poll>
//@with
//@rw R5
    &mut P
//@with
    &mut Poller
//@ret r
//@requires
    wf(current_header), wf(*prev_header)
//@ensures P C20 common-ancestor-of-both-tips-and-parent-linked-new-blocks
    r is Ok ==> ({ let d = r->Ok_0;
        &&& is_ancestor(d.common_ancestor.block_hash, current_header.block_hash)
        &&& is_ancestor(d.common_ancestor.block_hash, prev_header.block_hash)
        &&& wf(d.common_ancestor)
        &&& linked(d.connected_blocks@, current_header.block_hash, d.common_ancestor.block_hash) })
//@at before_loop 1
    proof { assert(nth_parent(current_header.block_hash, 0) == current_header.block_hash); assert(nth_parent(prev_header.block_hash, 0) == prev_header.block_hash); }
//@loop 1
    invariant wf(current), wf(previous),
        is_ancestor(current.block_hash, current_header.block_hash),
        is_ancestor(previous.block_hash, prev_header.block_hash),
        linked(connected_blocks@, current_header.block_hash, current.block_hash),
    ensures current.block_hash == previous.block_hash, wf(current),
        is_ancestor(current.block_hash, current_header.block_hash),
        is_ancestor(previous.block_hash, prev_header.block_hash),
        linked(connected_blocks@, current_header.block_hash, current.block_hash),
//@at loop_body_start 1
    let ghost c0 = current; let ghost p0 = previous; let ghost cb0 = connected_blocks@;
//@at loop_body_end 1
    proof {
        lemma_anc_step(prev_header.block_hash, p0.block_hash, previous.block_hash);
        lemma_anc_step(current_header.block_hash, c0.block_hash, current.block_hash);
        if current.block_hash != c0.block_hash { assert(connected_blocks@ == cb0.push(c0)); }
    }
//@mutant wrong_block_recorded_as_connected
    connected_blocks.push(current);
//@with
    connected_blocks.push(previous);
//@mutant connected_block_dropped
    connected_blocks.push(current); current =
//@with
    current =
//@end
}


// ---------------- listener notifications: the listener is always moved along ONE chain (trace preconditions on the listener stub) ----------------
pub struct Block {} pub struct BlockLocator { pub block_hash: BlockHash, pub height: u32 }
impl BlockLocator { pub fn new(block_hash: BlockHash, height: u32) -> (r: Self) ensures r.block_hash == block_hash, r.height == height { BlockLocator { block_hash, height } } }
pub uninterp spec fn hash_of_block(b: Block) -> BlockHash;
pub uninterp spec fn hash_of_header(h: Header) -> BlockHash;
pub enum BlockData { FullBlock(Block), HeaderOnly(Header) }
pub open spec fn hash_of_data(d: BlockData) -> BlockHash { match d { BlockData::FullBlock(b) => hash_of_block(b), BlockData::HeaderOnly(h) => hash_of_header(h) } }
pub struct ValidatedBlock { pub block_hash: BlockHash, pub inner: BlockData }
impl core::ops::Deref for ValidatedBlock { type Target = BlockData; fn deref(&self) -> (r: &BlockData) ensures *r == self.inner { &self.inner } }
// the chain listener: `tip` is the block it was last told about.  (P) trace obligations every notification must discharge:
pub struct Listener { pub tip: Ghost<BlockHash> }
impl Listener {
    #[verifier::external_body]
    pub fn blocks_disconnected(&mut self, fork_point: BlockLocator)
        requires is_ancestor(fork_point.block_hash, old(self).tip@), fork_point.height as int == height_of(fork_point.block_hash)   // disconnection back to an ancestor
        ensures final(self).tip@ == fork_point.block_hash
    { unimplemented!() }
    #[verifier::external_body]
    pub fn block_connected(&mut self, block: &Block, height: u32)
        requires parent_of(hash_of_block(*block)) == old(self).tip@, height as int == height_of(old(self).tip@) + 1         // each new block builds on the previous notification, in ascending height order
        ensures final(self).tip@ == hash_of_block(*block)
    { unimplemented!() }
    #[verifier::external_body]
    pub fn filtered_block_connected(&mut self, header: &Header, txdata: &[u8; 0], height: u32)
        requires parent_of(hash_of_header(*header)) == old(self).tip@, height as int == height_of(old(self).tip@) + 1
        ensures final(self).tip@ == hash_of_header(*header)
    { unimplemented!() }
}
impl HeaderCache {
    #[verifier::external_body] pub fn blocks_disconnected(&mut self, fork_point: &ValidatedBlockHeader) { unimplemented!() }
    #[verifier::external_body] pub fn block_connected(&mut self, block_hash: BlockHash, block_header: ValidatedBlockHeader) { unimplemented!() }
}
impl Poller {
    #[verifier::external_body]
    async fn fetch_block(&mut self, header: &ValidatedBlockHeader) -> (r: BlockSourceResult<ValidatedBlock>)
        ensures r is Ok ==> r->Ok_0.block_hash == header.block_hash && hash_of_data(r->Ok_0.inner) == header.block_hash     // ChainPoller validates the block against the header
    { unimplemented!() }
}
impl PartialEqSpecImpl for ValidatedBlockHeader { open spec fn obeys_eq_spec() -> bool { true } open spec fn eq_spec(&self, other: &ValidatedBlockHeader) -> bool { *self == *other } }
impl PartialEq for ValidatedBlockHeader { #[verifier::external_body] fn eq(&self, o: &ValidatedBlockHeader) -> (r: bool) { unimplemented!() } }
pub struct Notifier<'a> { pub header_cache: &'a mut HeaderCache, pub chain_listener: &'a mut Listener }

impl<'a> Notifier<'a> {
    // find_difference_from_header is verified above (same text, ChainNotifier skeleton without the listener); restated here as the callee contract
    #[verifier::external_body]
	async fn find_difference_from_header(&self, current_header: ValidatedBlockHeader, prev_header: &ValidatedBlockHeader, chain_poller: &mut Poller) -> (r: BlockSourceResult<ChainDifference>)
        requires wf(current_header), wf(*prev_header)
        ensures r is Ok ==> ({ let d = r->Ok_0;
            &&& is_ancestor(d.common_ancestor.block_hash, current_header.block_hash)
            &&& is_ancestor(d.common_ancestor.block_hash, prev_header.block_hash)
            &&& wf(d.common_ancestor)
            &&& linked(d.connected_blocks@, current_header.block_hash, d.common_ancestor.block_hash) })
    { unimplemented!() }

//@extract lightning-block-sync/src/lib.rs :: impl ChainNotifier :: fn disconnect_blocks
//@requires
    is_ancestor(fork_point.block_hash, old(self).chain_listener.tip@), wf(fork_point),
//@ensures A listener-is-moved-back-to-the-fork-point
    final(self).chain_listener.tip@ == fork_point.block_hash
//@end

//@extract lightning-block-sync/src/lib.rs :: impl ChainNotifier :: fn connect_blocks
//@rw R5
    <P: Poll>
//@with
//@rw R5
    &mut P
//@with
    &mut Poller
//@rw R5
    mut new_tip: ValidatedBlockHeader, mut connected_blocks: Vec<ValidatedBlockHeader>,
//@with
    new_tip_in: ValidatedBlockHeader, connected_blocks_in: Vec<ValidatedBlockHeader>,
//@at body_start
    // R5: by-value `mut` parameters re-bound as mutable locals (Verus has no `mut` parameters)
    let mut new_tip = new_tip_in; let mut connected_blocks = connected_blocks_in;
//@rw R6
    for header in connected_blocks.drain(..).rev() { $body:any }
//@with
    // R6: `for header in v.drain(..).rev()` = take the elements from the last to the first
    let ghost top = if connected_blocks@.len() > 0 { connected_blocks@[0].block_hash } else { new_tip.block_hash };
    while connected_blocks.len() > 0
        invariant self.chain_listener.tip@ == new_tip.block_hash, linked(connected_blocks@, top, new_tip.block_hash), wf(new_tip),
        ensures self.chain_listener.tip@ == new_tip.block_hash, connected_blocks@.len() == 0, new_tip.block_hash == top,
        decreases connected_blocks@.len()
    {
        let ghost before = connected_blocks@;
        let header = connected_blocks.pop().unwrap();
        proof {
            assert(header == before[before.len() - 1]);
            assert(wf(header));
            assert(connected_blocks@ =~= before.take(before.len() - 1));
        }
        $body
        proof { assert(linked(connected_blocks@, top, new_tip.block_hash)); }
    }
//@ret r
//@requires
    old(self).chain_listener.tip@ == new_tip_in.block_hash, wf(new_tip_in),
    linked(connected_blocks_in@, if connected_blocks_in@.len() > 0 { connected_blocks_in@[0].block_hash } else { new_tip_in.block_hash }, new_tip_in.block_hash),
//@ensures P C20 blocks-are-connected-one-by-one-each-on-top-of-the-previous-notification-and-an-error-reports-where-the-listener-stopped
    r is Ok ==> final(self).chain_listener.tip@ == (if connected_blocks_in@.len() > 0 { connected_blocks_in@[0].block_hash } else { new_tip_in.block_hash }),
    r is Err ==> r->Err_0.1 is Some && final(self).chain_listener.tip@ == r->Err_0.1->Some_0.block_hash && wf(r->Err_0.1->Some_0),
//@rw R8
    .map_err(|e| (e, Some(new_tip)))
//@with
    .map_err(|e: BlockSourceError| -> (o: (BlockSourceError, Option<ValidatedBlockHeader>)) ensures o.1 == Some(new_tip) { (e, Some(new_tip)) })
//@mutant tip_not_advanced_after_connecting
    new_tip = header;
//@with
    let _ = header;
//@end

//@extract lightning-block-sync/src/lib.rs :: impl ChainNotifier :: fn synchronize_listener
//@rw R5
    <P: Poll>
//@with
//@rw R5
    &mut P
//@with
    &mut Poller
//@rw R8
    .map_err(|e| (e, None))
//@with
    .map_err(|e: BlockSourceError| -> (o: (BlockSourceError, Option<ValidatedBlockHeader>)) ensures o.1 is None { (e, None) })
//@ret r
//@requires
    old(self).chain_listener.tip@ == old_header.block_hash, wf(new_header), wf(*old_header),
//@ensures P C20 listener-ends-on-the-new-tip-or-exactly-where-the-error-says
    r is Ok ==> final(self).chain_listener.tip@ == new_header.block_hash,
    r is Err && r->Err_0.1 is Some ==> final(self).chain_listener.tip@ == r->Err_0.1->Some_0.block_hash,
    r is Err && r->Err_0.1 is None ==> final(self).chain_listener.tip@ == old(self).chain_listener.tip@,
//@end
}

// R5 glue (trusted): `Notifier { header_cache: &mut a, chain_listener: &mut b }.synchronize_listener(..)` as a function of the two borrows, with
// synchronize_listener's verified contract restated on the borrow (this Verus version does not resolve `&mut` borrows stored in a struct when the struct dies)
#[verifier::external_body]
async fn synchronize_listener_via_notifier(header_cache: &mut HeaderCache, chain_listener: &mut Listener, new_header: ValidatedBlockHeader, old_header: &ValidatedBlockHeader, chain_poller: &mut Poller)
    -> (r: Result<(), (BlockSourceError, Option<ValidatedBlockHeader>)>)
    requires old(chain_listener).tip@ == old_header.block_hash, wf(new_header), wf(*old_header),
    ensures
        r is Ok ==> final(chain_listener).tip@ == new_header.block_hash,
        r is Err && r->Err_0.1 is Some ==> final(chain_listener).tip@ == r->Err_0.1->Some_0.block_hash,
        r is Err && r->Err_0.1 is None ==> final(chain_listener).tip@ == old(chain_listener).tip@,
{ unimplemented!() }
pub struct SpvClient { pub chain_tip: ValidatedBlockHeader, pub chain_poller: Poller, pub header_cache: HeaderCache, pub chain_listener: Listener }
impl SpvClient {
//@extract lightning-block-sync/src/lib.rs :: impl SpvClient :: fn poll_best_tip
//@ret r
//@requires
    old(self).chain_tip.block_hash == old(self).chain_listener.tip@, wf(old(self).chain_tip), old(self).chain_tip.block_hash == hash_of(old(self).chain_tip.inner.header),
//@ensures P C20 a-poll-moves-the-listener-only-towards-a-tip-the-poller-reported-as-better-and-otherwise-leaves-listener-and-recorded-tip-untouched
    final(self).chain_tip.block_hash == final(self).chain_listener.tip@,
    (r is Err || (r is Ok && !(r->Ok_0.0 is Better))) ==> final(self).chain_listener.tip@ == old(self).chain_listener.tip@ && final(self).chain_tip == old(self).chain_tip,
    (r is Ok && !(r->Ok_0.0 is Better)) ==> !r->Ok_0.1,
//@mutant listener_moved_to_a_tip_with_no_more_work
    false }, };
//@with
    self.update_chain_tip(chain_tip).await }, };
//@end
//@extract lightning-block-sync/src/lib.rs :: impl SpvClient :: fn update_chain_tip
//@rw R5
    let mut chain_notifier = ChainNotifier { header_cache: &mut self.header_cache, chain_listener: &*self.chain_listener, }; match chain_notifier .synchronize_listener($args) .await
//@with
    match synchronize_listener_via_notifier(&mut self.header_cache, &mut self.chain_listener, $args).await
//@rw R7
    Err((_, Some(chain_tip))) if $g => { $b:any }, Err(_) => $f,
//@with
    // R7 (guard lowering; this Verus version mis-handles a match guard whose arm assigns through `self`): the only later arm that can
    // match an `Err((_, Some(_)))` value is `Err(_)`, whose body is repeated in the else branch
    Err((_, Some(chain_tip))) => { if $g { $b } else { $f } }, Err(_) => $f,
//@ret r
//@requires
    old(self).chain_tip.block_hash == old(self).chain_listener.tip@, wf(old(self).chain_tip), wf(best_chain_tip),
//@ensures P C20 the-client's-recorded-tip-is-always-where-its-listener-is-also-after-a-source-error
    final(self).chain_tip.block_hash == final(self).chain_listener.tip@,
//@mutant partial_progress_forgotten_unless_more_work
    if chain_tip.block_hash != self.chain_tip.block_hash =>
//@with
    if chain_tip.inner.height > self.chain_tip.inner.height =>
//@end
}

impl ValidatedBlockHeader {
//@extract lightning-block-sync/src/poll.rs :: impl ValidatedBlockHeader :: fn check_builds_on
//@ret r
//@requires
    previous_header.inner.height < u32::MAX,
//@ensures P C20 headers-that-do-not-connect-are-refused
    r is Ok ==> self.inner.header.prev_blockhash == previous_header.block_hash
        && self.inner.height == previous_header.inner.height + 1
        && self.inner.chainwork.0 == (previous_header.inner.chainwork.0 + work_of(self.inner.header).0) % 0x1_0000_0000_0000_0000,
//@mutant height_check_dropped
    if self.height != previous_header.height + 1 {
//@with
    if self.height < previous_header.height {
//@mutant prev_hash_check_inverted
    if self.header.prev_blockhash != previous_header.block_hash {
//@with
    if self.header.prev_blockhash == previous_header.block_hash {
//@end
}


// ---- the canonical poller: validation of what a block source returns (poll.rs) ----
// the PoW-valid hash of a header (double SHA-256 of its 80 bytes; opaque)
pub uninterp spec fn hash_of(h: Header) -> BlockHash;
impl Header {
    #[verifier::external_body] pub fn validate_pow(&self, required_target: Target) -> (r: Result<BlockHash, ()>) ensures r is Ok ==> r->Ok_0 == hash_of(*self) { unimplemented!() }
    #[verifier::external_body] pub fn block_hash(&self) -> (r: BlockHash) ensures r == hash_of(*self) { unimplemented!() }
}
impl BlockSourceError { #[verifier::external_body] pub fn persistent_unit(e: ()) -> BlockSourceError { unimplemented!() } }
impl BlockHeaderData {
//@extract lightning-block-sync/src/poll.rs :: impl Validate for BlockHeaderData :: fn validate
//@rw R5
    BlockSourceResult<Self::T>
//@with
    BlockSourceResult<ValidatedBlockHeader>
//@rw R8
    .map_err(BlockSourceError::persistent)?
//@with
    .map_err(|e: ()| -> (o: BlockSourceError) { BlockSourceError::persistent_unit(e) })?
//@ret r
//@ensures P C20 a-validated-header-carries-the-proof-of-work-hash-of-its-own-header-and-that-is-the-hash-that-was-asked-for
    r is Ok ==> r->Ok_0.block_hash == block_hash && block_hash == hash_of(self.header) && r->Ok_0.inner == self,
//@mutant any_header_accepted_for_the_requested_hash
    if pow_valid_block_hash != block_hash {
//@with
    if false {
//@end
}
// any block source
pub struct BlockSourceStub {}
pub uninterp spec fn reported_best(s: BlockSourceStub) -> BlockHash;   // the best block hash the source names (when it answers)
impl BlockSourceStub {
    #[verifier::external_body] pub async fn get_best_block(&self) -> (r: BlockSourceResult<(BlockHash, Option<u32>)>) ensures r is Ok ==> r->Ok_0.0 == reported_best(*self) { unimplemented!() }
    #[verifier::external_body] pub async fn get_header(&self, header_hash: &BlockHash, height_hint: Option<u32>) -> (r: BlockSourceResult<BlockHeaderData>)
        ensures r is Ok ==> r->Ok_0.height < u32::MAX   // assumption on block sources (see header)
    { unimplemented!() }
}
pub struct ChainPoller { pub block_source: BlockSourceStub, pub network: Network }
//@extract lightning-block-sync/src/poll.rs :: enum ChainTip
//@end
impl ChainPoller {
//@extract lightning-block-sync/src/poll.rs :: impl Poll for ChainPoller :: fn poll_chain_tip
//@slice R5
    async move { $body:any }
//@with
    async fn poll_chain_tip(&self, best_known_chain_tip: ValidatedBlockHeader) -> BlockSourceResult<ChainTip> { $body }
//@ret r
//@ensures P C20 the-poller-reports-a-tip-as-better-only-with-strictly-more-chainwork-and-only-after-validating-it
    r is Ok ==> match r->Ok_0 {
        ChainTip::Common => true,
        ChainTip::Better(t) => t.inner.chainwork.0 > best_known_chain_tip.inner.chainwork.0 && t.block_hash == hash_of(t.inner.header) && t.block_hash != hash_of(best_known_chain_tip.inner.header),
        ChainTip::Worse(t) => t.inner.chainwork.0 <= best_known_chain_tip.inner.chainwork.0 && t.block_hash == hash_of(t.inner.header) && t.block_hash != hash_of(best_known_chain_tip.inner.header),
    },
//@mutant equal_work_tip_reported_better
    chain_tip.chainwork > best_known_chain_tip.chainwork
//@with
    chain_tip.chainwork >= best_known_chain_tip.chainwork
//@end
//@extract lightning-block-sync/src/poll.rs :: impl Poll for ChainPoller :: fn look_up_previous_header
//@slice R5
    async move { $body:any }
//@with
    async fn look_up_previous_header(&self, header: &ValidatedBlockHeader) -> BlockSourceResult<ValidatedBlockHeader> { $body }
//@ret r
//@ensures P C20 the-header-handed-back-as-previous-is-validated-and-really-is-the-parent-one-block-lower
    r is Ok ==> r->Ok_0.block_hash == header.inner.header.prev_blockhash && r->Ok_0.block_hash == hash_of(r->Ok_0.inner.header) && builds_on(*header, r->Ok_0),
//@mutant previous_header_not_checked_to_connect
    header.check_builds_on(&previous_header, self.network)?;
//@with
    
//@end
// start-up: the tip the listeners are synchronised to is the source's best block, validated against the hash the source named
//@extract lightning-block-sync/src/init.rs :: fn validate_best_block_header
//@rw R5
    pub async fn validate_best_block_header<B: Deref>( block_source: B, ) -> BlockSourceResult<ValidatedBlockHeader> where B::Target: BlockSource,
//@with
    pub async fn validate_best_block_header( block_source: &BlockSourceStub, ) -> BlockSourceResult<ValidatedBlockHeader>
//@ret r
//@ensures P C20 the-start-up-tip-is-a-header-whose-proof-of-work-hash-is-the-best-block-hash-the-source-reported
    r is Ok ==> r->Ok_0.block_hash == hash_of(r->Ok_0.inner.header) && r->Ok_0.block_hash == reported_best(*block_source),
//@mutant start_up_tip_not_validated_against_the_reported_hash
    block_source.get_header(&best_block_hash, best_block_height).await?.validate(best_block_hash)
//@with
    { let h = block_source.get_header(&best_block_hash, best_block_height).await?; let hh = h.header.block_hash(); h.validate(hh) }
//@end
// a header asked for by hash (start-up: a listener's last block) comes back validated against that hash
//@extract lightning-block-sync/src/poll.rs :: impl Poll for ChainPoller :: fn get_header
//@slice R5
    Box::pin(async move { $body:any })
//@with
    async fn get_header(&self, block_hash: &BlockHash, height_hint: Option<u32>) -> BlockSourceResult<ValidatedBlockHeader> { $body }
//@ret r
//@ensures P C20 a-header-asked-for-by-hash-is-handed-back-only-with-that-hash-as-its-proof-of-work-hash
    r is Ok ==> r->Ok_0.block_hash == *block_hash && *block_hash == hash_of(r->Ok_0.inner.header),
//@end
// Poll::check_builds_on as ChainPoller implements it (a method the repair of finding F13 added: absent from a tree without the repair, where nothing can call it)
//@extract? lightning-block-sync/src/poll.rs :: impl Poll for ChainPoller :: fn check_builds_on
//@ret r
//@requires
    previous_header.inner.height < u32::MAX,
//@ensures P C20 the-pollers-check-that-a-header-builds-on-an-already-known-parent-is-the-check-made-on-a-fetched-parent
    r is Ok ==> builds_on(*header, *previous_header) && header.inner.chainwork.0 == (previous_header.inner.chainwork.0 + work_of(header.inner.header).0) % 0x1_0000_0000_0000_0000,
//@end
// the height the parent is asked for at (BlockSource::get_header may rely on the hint to find the header): one below the header's own
//@extract lightning-block-sync/src/poll.rs :: impl Poll for ChainPoller :: fn look_up_previous_header
//@slice R15
    let height = $h:seq; let previous_header = self .block_source .get_header(previous_hash, Some(height))
//@with
    fn height_the_parent_is_asked_for_at(header: &ValidatedBlockHeader) -> u32 { let height = $h; height }
//@ret r
//@requires
    header.inner.height > 0,
//@ensures P C20 the-parent-of-a-header-is-requested-from-the-source-at-the-height-one-below-the-headers-own
    r as int == header.inner.height - 1,
//@mutant parent_requested_at_the_childs_own_height
    let height = header.height - 1;
//@with
    let height = header.height;
//@end
}
// ---- the block handed to the listeners is the block of the header being connected (poll.rs, Validate for BlockData) ----
pub mod block_validation {
use vstd::prelude::*;
#[derive(Clone, Copy, PartialEq, Eq)] pub struct BlockHash(pub u64);
impl vstd::std_specs::cmp::PartialEqSpecImpl for BlockHash { open spec fn obeys_eq_spec() -> bool { true } open spec fn eq_spec(&self, other: &BlockHash) -> bool { *self == *other } }
pub struct Target {}
pub struct Header { pub id: u64 }
pub uninterp spec fn hash_of(h: Header) -> BlockHash;
impl Header {
    #[verifier::external_body] pub fn target(&self) -> Target { unimplemented!() }
    #[verifier::external_body] pub fn validate_pow(&self, required_target: Target) -> (r: Result<BlockHash, ()>) ensures r is Ok ==> r->Ok_0 == hash_of(*self) { unimplemented!() }
    #[verifier::external_body] pub fn block_hash(&self) -> (r: BlockHash) ensures r == hash_of(*self) { unimplemented!() }
}
pub struct Block { pub header: Header, pub txs: u64 }
pub uninterp spec fn merkle_ok(b: Block) -> bool;
pub uninterp spec fn witness_ok(b: Block) -> bool;
impl Block {
    #[verifier::external_body] pub fn check_merkle_root(&self) -> (r: bool) ensures r == merkle_ok(*self) { unimplemented!() }
    #[verifier::external_body] pub fn check_witness_commitment(&self) -> (r: bool) ensures r == witness_ok(*self) { unimplemented!() }
}
pub enum BlockData { FullBlock(Block), HeaderOnly(Header) }
pub struct ValidatedBlock { pub block_hash: BlockHash, pub inner: BlockData }
pub struct BlockSourceError {}
impl BlockSourceError { #[verifier::external_body] pub fn persistent(e: &str) -> BlockSourceError { unimplemented!() } #[verifier::external_body] pub fn persistent_unit(e: ()) -> BlockSourceError { unimplemented!() } }
pub type BlockSourceResult<T> = Result<T, BlockSourceError>;
pub open spec fn header_of(d: BlockData) -> Header { match d { BlockData::FullBlock(b) => b.header, BlockData::HeaderOnly(h) => h } }
impl BlockData {
//@extract lightning-block-sync/src/poll.rs :: impl Validate for BlockData :: fn validate
//@rw R5
    BlockSourceResult<Self::T>
//@with
    BlockSourceResult<ValidatedBlock>
//@rw R8
    .map_err(BlockSourceError::persistent)?
//@with
    .map_err(|e: ()| -> (o: BlockSourceError) { BlockSourceError::persistent_unit(e) })?
//@ret r
//@ensures P C20 a-fetched-block-is-accepted-only-as-the-block-of-the-header-being-connected-with-valid-proof-of-work-and-for-a-full-block-a-transaction-list-its-header-commits-to
    r is Ok ==> r->Ok_0.block_hash == block_hash && hash_of(header_of(self)) == block_hash && r->Ok_0.inner == self
        && (self matches BlockData::FullBlock(b) ==> merkle_ok(b) && witness_ok(b)),
//@mutant fetched_block_compared_with_its_own_hash
    if pow_valid_block_hash != block_hash {
//@with
    if pow_valid_block_hash != header.block_hash() {
//@mutant merkle_root_of_a_full_block_not_checked
    if !block.check_merkle_root() {
//@with
    if false {
//@end
}
// the canonical poller asks its source for the block of the header being connected and accepts the answer only through validate
pub struct HeaderRef { pub block_hash: BlockHash }
pub struct Source {}
impl Source { #[verifier::external_body] pub async fn get_block(&self, header_hash: &BlockHash) -> (r: BlockSourceResult<BlockData>) { unimplemented!() } }
pub struct ChainPoller { pub block_source: Source }
impl ChainPoller {
//@extract lightning-block-sync/src/poll.rs :: impl Poll for ChainPoller :: fn fetch_block
//@slice R5
    async move { $body:any }
//@with
    async fn fetch_block(&self, header: &HeaderRef) -> BlockSourceResult<ValidatedBlock> { $body }
//@ret r
//@ensures P C20 the-block-the-poller-hands-back-for-a-header-is-a-validated-block-with-that-headers-hash-whatever-the-source-answered
    r is Ok ==> r->Ok_0.block_hash == header.block_hash && hash_of(header_of(r->Ok_0.inner)) == header.block_hash
        && (r->Ok_0.inner matches BlockData::FullBlock(b) ==> merkle_ok(b) && witness_ok(b)),
//@mutant block_validated_against_no_particular_hash
    self.block_source.get_block(&header.block_hash).await?.validate(header.block_hash)
//@with
    { let b = self.block_source.get_block(&header.block_hash).await?; let h = match &b { BlockData::FullBlock(x) => x.header.block_hash(), BlockData::HeaderOnly(x) => x.block_hash() }; b.validate(h) }
//@end
}
}
// ---- find_difference_from_best_block: at which height the k-th remembered ancestor of a stale listener tip is looked up ----
//@extract lightning-block-sync/src/lib.rs :: impl ChainNotifier :: fn find_difference_from_best_block
//@slice R15
    if let Some(block_hash) = hash_opt { Some(($d:seq, block_hash)) } else { None }
//@with
    fn height_distance_of_remembered_ancestor(idx: usize) -> u32 { $d }
//@ret r
//@requires
    idx < 0x1000_0000,
//@ensures P C20 the-k-th-remembered-ancestor-of-a-listeners-last-block-is-looked-up-k-plus-one-blocks-below-it
    r as int == idx + 1,
//@mutant ancestors_looked_up_one_block_too_high
    Some((idx as u32 + 1, block_hash))
//@with
    Some((idx as u32, block_hash))
//@end
// ---- init::synchronize_listeners: start-up synchronisation of several listeners ---------------------------
pub mod start_up {
use vstd::prelude::*;
pub struct Hdr { pub height: u32 }
//@extract lightning-block-sync/src/init.rs :: fn synchronize_listeners
//@slice R15
    for (height, block_data) in fetched_blocks.iter().flatten() { if $c:cond { match &**block_data {
//@with
    fn listener_is_told_of_block(height: &u32, listener_height: &u32) -> bool { $c }
//@ret r
//@ensures P C20 at-start-up-a-listener-is-connected-exactly-the-fetched-blocks-above-its-own-fork-point
    r == (*height > *listener_height),
//@mutant fork_point_block_connected_again
    if *height > *listener_height {
//@with
    if *height >= *listener_height {
//@end
// what a listener is told at start-up: the fetched block (whole, or its header with no transactions) at the block's own height
pub struct Block { pub id: u64 }
pub struct HeaderData { pub id: u64 }
pub struct Tx { pub id: u64 }
pub enum BlockData { FullBlock(Block), HeaderOnly(HeaderData) }
pub enum Told { Whole { block: u64, height: u32 }, Filtered { header: u64, ntx: nat, height: u32 } }
pub struct StartUpListener { pub log: Ghost<Seq<Told>> }
impl StartUpListener {
    #[verifier::external_body] pub fn block_connected(&mut self, block: &Block, height: u32)
        ensures final(self).log@ == old(self).log@.push(Told::Whole { block: block.id, height }) { unimplemented!() }
    #[verifier::external_body] pub fn filtered_block_connected(&mut self, header: &HeaderData, txdata: &[Tx], height: u32)
        ensures final(self).log@ == old(self).log@.push(Told::Filtered { header: header.id, ntx: txdata@.len(), height }) { unimplemented!() }
}
//@extract lightning-block-sync/src/init.rs :: fn synchronize_listeners
//@slice R15
    for (height, block_data) in fetched_blocks.iter().flatten() { if $c:cond { match &**block_data { $arms:any } } }
//@with
    fn tell_listener_of_block(listener: &mut StartUpListener, listener_height: &u32, height: &u32, block_data: &Box<BlockData>) { if $c { match &**block_data { $arms } } }
//@ensures P C20 at-start-up-a-listener-is-told-of-each-fetched-block-above-its-fork-point-at-that-blocks-own-height
    *height > *listener_height ==> final(listener).log@ == old(listener).log@.push(match **block_data {
        BlockData::FullBlock(b) => Told::Whole { block: b.id, height: *height },
        BlockData::HeaderOnly(h) => Told::Filtered { header: h.id, ntx: 0, height: *height } }),
    *height <= *listener_height ==> final(listener).log@ == old(listener).log@,
//@mutant header_only_block_announced_at_the_listeners_height
    listener.filtered_block_connected(&header_data, &[], *height);
//@with
    listener.filtered_block_connected(&header_data, &[], *listener_height);
//@end
//@extract lightning-block-sync/src/init.rs :: fn synchronize_listeners
//@capture R15
    const MAX_BLOCKS_AT_ONCE: usize = $max:seq;
//@capture R15
    for header in most_connected_blocks.iter().rev().take($k:seq) {
//@slice R15
    most_connected_blocks .truncate($n:seq);
//@with
    fn batch_size_and_remaining(most_connected_blocks: &Vec<Hdr>) -> (usize, usize) {
        const MAX_BLOCKS_AT_ONCE: usize = $max;
        ($k, $n)
    }
//@ret r
//@ensures P C20 the-blocks-taken-off-the-to-do-list-after-a-batch-are-exactly-the-blocks-the-batch-fetched-so-none-is-skipped-or-repeated
    r.1 + (if most_connected_blocks@.len() < r.0 { most_connected_blocks@.len() as int } else { r.0 as int }) == most_connected_blocks@.len(),
    r.0 >= 1,
//@mutant one_block_of_every_batch_kept_for_the_next
    most_connected_blocks.len().saturating_sub(MAX_BLOCKS_AT_ONCE)
//@with
    most_connected_blocks.len().saturating_sub(MAX_BLOCKS_AT_ONCE - 1)
//@end
//@extract lightning-block-sync/src/init.rs :: fn synchronize_listeners
//@slice R15
    if $c:cond { most_connected_blocks = connected_blocks; }
//@with
    fn longer_list_replaces_the_kept_one(connected_blocks: &Vec<Hdr>, most_connected_blocks: &Vec<Hdr>) -> bool { $c }
//@ret r
//@ensures P C20 the-list-of-blocks-to-fetch-is-the-longest-any-listener-needs
    r == (connected_blocks@.len() > most_connected_blocks@.len()),
//@end
}
}
fn main() {}
