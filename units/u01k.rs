//! unit: u01k
//! properties: C01
//! note: the receiving side's acceptance tests on update_add_htlc (ChannelContext::validate_update_add_htlc): a peer HTLC that keeps the sender above the reserve we selected, within our in-flight and count limits, is not refused; anything that violates one of them is
//! trusted: R15 (statement slicing): validate_update_add_htlc calls get_next_remote/local_commitment_stats (proved in unit u01 as get_next_commitment_stats) through the channel context; the unit extracts, on every run, its four local `if <cond> { return Err(..) }` tests with their conditions verbatim and checks them as one method of a context skeleton {holder_max_accepted_htlcs, holder_max_htlc_value_in_flight_msat}; msg/funding/stats are field skeletons; error construction replaced by tags; the two stats calls are represented by their results (Err => refused is visible in the sliced text as `?` is dropped: stated here, not claimed)
use vstd::prelude::*;
verus! {
pub struct UpdateAddHTLC { pub amount_msat: u64 }
pub struct FundingScope { pub value_satoshis: u64, pub holder_selected_channel_reserve_satoshis: u64 }
impl FundingScope { pub fn get_value_satoshis(&self) -> (r: u64) ensures r == self.value_satoshis { self.value_satoshis } }
pub struct NextCommitmentStats { pub holder_balance_msat: u64, pub counterparty_balance_msat: u64 }
pub struct ChannelStats { pub commitment_stats: NextCommitmentStats }
pub struct ChannelContext { pub holder_max_accepted_htlcs: u16, pub holder_max_htlc_value_in_flight_msat: u64 }
impl ChannelContext {
//@extract lightning/src/ln/channel.rs :: impl ChannelContext :: fn validate_update_add_htlc
//@rw R15
    fn validate_update_add_htlc<F: FeeEstimator>($params:any) -> $ret { if $c1 { return Err($e1); } $mid1:any if $c2 { return Err($e2); } if $c3 { return Err($e3); } $mid2:any if $c4 { return Err($e4); } $mid3:any Ok(()) }
//@with
    fn receiver_acceptance_tests(&self, funding: &FundingScope, msg: &UpdateAddHTLC, remote_stats: &ChannelStats, inbound_htlcs_count: usize, inbound_htlcs_value_msat: u64) -> Result<(), u8> {
        if $c1 { return Err(1); }
        if $c2 { return Err(2); }
        if $c3 { return Err(3); }
        if $c4 { return Err(4); }
        Ok(())
    }
//@ret r
//@requires
    funding.value_satoshis <= 21_000_000_0000_0000, funding.holder_selected_channel_reserve_satoshis <= 21_000_000_0000_0000,
//@ensures P C01 an-HTLC-that-keeps-the-sender-above-our-reserve-and-within-our-limits-is-accepted-anything-else-refused
    r is Ok <==> (msg.amount_msat as int <= funding.value_satoshis as int * 1000
        && inbound_htlcs_count <= self.holder_max_accepted_htlcs as usize
        && inbound_htlcs_value_msat <= self.holder_max_htlc_value_in_flight_msat
        && remote_stats.commitment_stats.counterparty_balance_msat as int >= funding.holder_selected_channel_reserve_satoshis as int * 1000),
//@mutant reserve_boundary_refused
    remote_stats.commitment_stats.counterparty_balance_msat < funding.holder_selected_channel_reserve_satoshis * 1000
//@with
    remote_stats.commitment_stats.counterparty_balance_msat <= funding.holder_selected_channel_reserve_satoshis * 1000
//@mutant in_flight_limit_not_enforced
    inbound_htlcs_value_msat > self.holder_max_htlc_value_in_flight_msat
//@with
    inbound_htlcs_value_msat > self.holder_max_htlc_value_in_flight_msat.saturating_mul(2)
//@end
}
}
fn main() {}
