//! unit: u01k
//! properties: C01
//! note: the receiving side's acceptance tests on update_add_htlc (ChannelContext::validate_update_add_htlc): a peer HTLC that keeps the sender above the reserve we selected, within our in-flight and count limits, is not refused; anything that violates one of them is
//! trusted: R15 (statement slicing): validate_update_add_htlc calls get_next_remote/local_commitment_stats (proved in unit u01 as get_next_commitment_stats) through the channel context; the unit extracts, on every run, its four local `if <cond> { return Err(..) }` tests with their conditions verbatim and checks them as one method of a context skeleton {holder_max_accepted_htlcs, holder_max_htlc_value_in_flight_msat}; msg/funding/stats are field skeletons; error construction replaced by tags; the two stats calls are represented by their results (Err => refused is visible in the sliced text as `?` is dropped: stated here, not claimed)
//! trusted: assume_specification for core::cmp::max / core::cmp::min (std definitions); can_accept_incoming_htlc is extracted whole with the same kind of stubs as validate_update_fee (acc_stats / acc_max_dust uninterpreted); R9: the tuple-pattern closure `|(fee, _)| fee` is written with a named parameter
//! trusted: R15 (statement slicing): send_htlc: the unit extracts the zero-amount test and the two tests against get_available_balances' result (proved in u01) verbatim as a function of (amount_msat, available_balances); the channel-state pre-checks and the state update are dropped and not claimed; error strings dropped (R8)
//! trusted: validate_update_fee is extracted whole; its callees get_next_local/remote_commitment_stats (thin wrappers of the builder function proved in u01), get_dust_exposure_limiting_feerate and get_max_dust_htlc_exposure_msat are external_body stubs returning uninterpreted values (local_stats_at / remote_stats_at / max_dust_exposure); FundingScope/ChannelContext self skeletons (R5); error messages dropped (R8)
//! trusted: R15 (deep slice): send_htlc from `let need_holding_cell = ..` to the end, verbatim as a method of a skeleton {can_generate_new_commitment, holding cell, pending outbound HTLCs, next id}; the log statement between is dropped (R3); `hold_htlc.then(|| ())` is written as the if-expression it abbreviates (R9); duration_since_epoch is a stub
use vstd::prelude::*;
verus! {
use vstd::std_specs::cmp::*;
use core::cmp;
pub assume_specification<T: core::cmp::Ord>[core::cmp::max::<T>](a: T, b: T) -> (r: T)
    ensures T::obeys_cmp_spec() ==> r == (if b.cmp_spec(&a) == core::cmp::Ordering::Less { a } else { b });
pub assume_specification<T: core::cmp::Ord>[core::cmp::min::<T>](a: T, b: T) -> (r: T)
    ensures T::obeys_cmp_spec() ==> r == (if b.cmp_spec(&a) == core::cmp::Ordering::Less { b } else { a });
pub struct UpdateAddHTLC { pub amount_msat: u64 }
pub struct FundingScope { pub value_satoshis: u64, pub holder_selected_channel_reserve_satoshis: u64 }
impl FundingScope { pub fn get_value_satoshis(&self) -> (r: u64) ensures r == self.value_satoshis { self.value_satoshis } }
pub struct NextCommitmentStats { pub holder_balance_msat: u64, pub counterparty_balance_msat: u64 }
pub struct ChannelStats { pub commitment_stats: NextCommitmentStats }
pub struct ChannelContext { pub holder_max_accepted_htlcs: u16, pub holder_max_htlc_value_in_flight_msat: u64 }
impl ChannelContext {
//@extract lightning/src/ln/channel.rs :: impl ChannelContext :: fn validate_update_add_htlc
//@rw R15
    fn validate_update_add_htlc<F: FeeEstimator>($params:any) -> $ret { if $c1 { return Err($e1); } $mid1:any if $c2 { return Err($e2); } if $c3 { return Err($e3); } $mid2:any if $c4 { return Err($e4); } $mid3:any Ok(()) }
//@with
    fn receiver_acceptance_tests(&self, funding: &FundingScope, msg: &UpdateAddHTLC, remote_stats: &ChannelStats, inbound_htlcs_count: usize, inbound_htlcs_value_msat: u64) -> Result<(), u8> {
        if $c1 { return Err(1); }
        if $c2 { return Err(2); }
        if $c3 { return Err(3); }
        if $c4 { return Err(4); }
        Ok(())
    }
//@ret r
//@requires
    funding.value_satoshis <= 21_000_000_0000_0000, funding.holder_selected_channel_reserve_satoshis <= 21_000_000_0000_0000,
//@ensures P C01 an-HTLC-that-keeps-the-sender-above-our-reserve-and-within-our-limits-is-accepted-anything-else-refused
    r is Ok <==> (msg.amount_msat as int <= funding.value_satoshis as int * 1000
        && inbound_htlcs_count <= self.holder_max_accepted_htlcs as usize
        && inbound_htlcs_value_msat <= self.holder_max_htlc_value_in_flight_msat
        && remote_stats.commitment_stats.counterparty_balance_msat as int >= funding.holder_selected_channel_reserve_satoshis as int * 1000),
//@mutant reserve_boundary_refused
    remote_stats.commitment_stats.counterparty_balance_msat < funding.holder_selected_channel_reserve_satoshis * 1000
//@with
    remote_stats.commitment_stats.counterparty_balance_msat <= funding.holder_selected_channel_reserve_satoshis * 1000
//@mutant in_flight_limit_not_enforced
    inbound_htlcs_value_msat > self.holder_max_htlc_value_in_flight_msat
//@with
    inbound_htlcs_value_msat > self.holder_max_htlc_value_in_flight_msat.saturating_mul(2)
//@end
}

// ---- a peer's update_fee is accepted only if the funder can still afford it (ChannelContext::validate_update_fee, whole function) ----
pub struct HTLCAmountDirection {}
pub struct ChannelTypeFeatures {}
pub trait FeeEstimator {}
pub struct LowerBoundedFeeEstimator<F: FeeEstimator>(pub F);
pub struct FeeStats { pub counterparty_balance_msat: u64, pub dust_exposure_msat: u64 }
pub struct FeeChannelStats { pub commitment_stats: FeeStats }
// both reserves of the real FundingScope (a change that subtracts the other side's reserve is verified, not rejected)
pub struct FeeFundingScope { pub holder_selected_channel_reserve_satoshis: u64, pub counterparty_selected_channel_reserve_satoshis: Option<u64>, pub ct: ChannelTypeFeatures }
impl FeeFundingScope { #[verifier::external_body] pub fn get_channel_type(&self) -> (r: &ChannelTypeFeatures) ensures *r == self.ct { unimplemented!() } }
pub enum ChannelError { Close(u8) }
impl ChannelError { #[verifier::external_body] pub fn close(_m: u8) -> (r: ChannelError) { unimplemented!() } }
pub struct FeeCtx {}
// what the two commitment transactions would look like at the proposed feerate (get_next_commitment_stats, proved in unit u01)
// the statistics of the next commitment, as a function of everything the caller chooses: whether HTLCs the counterparty does not know yet are counted, how many further non-dust HTLCs, the feerate, whether a fee spike is assumed, and the feerate that limits dust exposure
pub uninterp spec fn local_stats_at(c: FeeCtx, f: FeeFundingScope, include_unknown: bool, addl: usize, feerate: u32, spike: bool, lim: Option<u32>) -> FeeChannelStats;
pub uninterp spec fn remote_stats_at(c: FeeCtx, f: FeeFundingScope, include_unknown: bool, addl: usize, feerate: u32, spike: bool, lim: Option<u32>) -> FeeChannelStats;
pub uninterp spec fn limiting_feerate_of(c: FeeCtx, ct: ChannelTypeFeatures) -> Option<u32>;
pub uninterp spec fn max_dust_exposure(c: FeeCtx, limiting: Option<u32>) -> u64;
impl FeeCtx {
    #[verifier::external_body] pub fn get_dust_exposure_limiting_feerate<F: FeeEstimator>(&self, fee_estimator: &&LowerBoundedFeeEstimator<F>, ct: &ChannelTypeFeatures) -> (r: Option<u32>) ensures r == limiting_feerate_of(*self, *ct) { unimplemented!() }
    #[verifier::external_body] pub fn get_max_dust_htlc_exposure_msat(&self, limiting: Option<u32>) -> (r: u64) ensures r == max_dust_exposure(*self, limiting) { unimplemented!() }
    #[verifier::external_body] pub fn get_next_local_commitment_stats(&self, funding: &FeeFundingScope, htlc_candidate: Option<HTLCAmountDirection>, include_counterparty_unknown_htlcs: bool,
        addl_nondust_htlc_count: usize, feerate_per_kw: u32, assume_fee_spike: bool, dust_exposure_limiting_feerate: Option<u32>) -> (r: Result<(FeeChannelStats, Vec<HTLCAmountDirection>), ()>)
        ensures r is Ok ==> htlc_candidate is None && r->Ok_0.0 == local_stats_at(*self, *funding, include_counterparty_unknown_htlcs, addl_nondust_htlc_count, feerate_per_kw, assume_fee_spike, dust_exposure_limiting_feerate) { unimplemented!() }
    #[verifier::external_body] pub fn get_next_remote_commitment_stats(&self, funding: &FeeFundingScope, htlc_candidate: Option<HTLCAmountDirection>, include_counterparty_unknown_htlcs: bool,
        addl_nondust_htlc_count: usize, feerate_per_kw: u32, assume_fee_spike: bool, dust_exposure_limiting_feerate: Option<u32>) -> (r: Result<(FeeChannelStats, Vec<HTLCAmountDirection>), ()>)
        ensures r is Ok ==> htlc_candidate is None && r->Ok_0.0 == remote_stats_at(*self, *funding, include_counterparty_unknown_htlcs, addl_nondust_htlc_count, feerate_per_kw, assume_fee_spike, dust_exposure_limiting_feerate) { unimplemented!() }
//@extract lightning/src/ln/channel.rs :: impl ChannelContext :: fn validate_update_fee
//@rw R5
    funding: &FundingScope
//@with
    funding: &FeeFundingScope
//@rw R8 *
    ChannelError::close($m)
//@with
    ChannelError::close(0)
//@rw R9 *
    .map_err(|()| { $e })?
//@with
    .map_err(|_e: ()| -> (o: ChannelError) { $e })?
//@ret r
//@requires
    funding.holder_selected_channel_reserve_satoshis <= 21_000_000_0000_0000,
//@ensures P C01 a-fee-update-from-the-funder-is-accepted-only-if-it-keeps-the-funder-at-or-above-the-reserve-we-selected-on-our-commitment-and-both-dust-exposures-within-our-limit
    // judged on the commitments as the peer builds them: the HTLCs it knows, no further HTLC, the new feerate, no fee spike
    r is Ok ==> ({ let lim = limiting_feerate_of(*self, funding.ct);
        let l = local_stats_at(*self, *funding, false, 0, new_feerate_per_kw, false, lim); let rm = remote_stats_at(*self, *funding, false, 0, new_feerate_per_kw, false, lim);
        l.commitment_stats.counterparty_balance_msat as int >= funding.holder_selected_channel_reserve_satoshis as int * 1000
        && l.commitment_stats.dust_exposure_msat <= max_dust_exposure(*self, lim) && rm.commitment_stats.dust_exposure_msat <= max_dust_exposure(*self, lim) }),
//@mutant fee_update_judged_with_htlcs_the_peer_does_not_know_yet
    let include_counterparty_unknown_htlcs = false;
//@with
    let include_counterparty_unknown_htlcs = true;
//@mutant funder_may_dip_below_the_reserve
    .checked_sub(funding.holder_selected_channel_reserve_satoshis * 1000)
//@with
    .checked_sub(funding.holder_selected_channel_reserve_satoshis)
//@mutant remote_dust_exposure_not_checked
    if remote_stats.commitment_stats.dust_exposure_msat > max_dust_htlc_exposure_msat {
//@with
    if false {
//@end
}

// ---- a committed incoming HTLC is forwarded/accepted only if both commitments stay affordable (ChannelContext::can_accept_incoming_htlc, whole function) ----
pub trait Logger {}
#[derive(Clone, Copy)] pub enum FeeUpdateState { RemoteAnnounced, AwaitingRemoteRevokeToAnnounce, Outbound }
pub enum LocalHTLCFailureReason { ChannelBalanceOverdrawn, DustLimitCounterparty, DustLimitHolder, FeeSpikeBuffer }
pub struct ChanType { pub zfc: bool }
impl ChanType { #[verifier::external_body] pub fn supports_anchor_zero_fee_commitments(&self) -> (r: bool) ensures r == self.zfc { unimplemented!() } }
pub struct AccFunding { pub holder_selected_channel_reserve_satoshis: u64, pub ct: ChanType, pub outbound: bool }
impl AccFunding {
    #[verifier::external_body] pub fn get_channel_type(&self) -> (r: &ChanType) ensures *r == self.ct { unimplemented!() }
    #[verifier::external_body] pub fn is_outbound(&self) -> (r: bool) ensures r == self.outbound { unimplemented!() }
}
pub struct AccCtx { pub feerate_per_kw: u32, pub pending_update_fee: Option<(u32, FeeUpdateState)> }
pub uninterp spec fn acc_stats(c: AccCtx, f: AccFunding, local: bool, addl_nondust_htlc_count: usize, feerate: u32, fee_spike: bool) -> FeeChannelStats;
pub uninterp spec fn acc_max_dust(c: AccCtx, limiting: Option<u32>) -> u64;
pub open spec fn acc_feerate(c: AccCtx) -> u32 {
    if c.pending_update_fee is Some && c.pending_update_fee->Some_0.0 > c.feerate_per_kw { c.pending_update_fee->Some_0.0 } else { c.feerate_per_kw }
}
pub open spec fn acc_buffer(f: AccFunding) -> usize { if f.ct.zfc { 0 } else { 1 } }
impl AccCtx {
    #[verifier::external_body] pub fn get_max_dust_htlc_exposure_msat(&self, limiting: Option<u32>) -> (r: u64) ensures r == acc_max_dust(*self, limiting) { unimplemented!() }
    #[verifier::external_body] pub fn get_next_local_commitment_stats(&self, funding: &AccFunding, htlc_candidate: Option<HTLCAmountDirection>, include_counterparty_unknown_htlcs: bool,
        addl_nondust_htlc_count: usize, feerate_per_kw: u32, assume_fee_spike: bool, dust_exposure_limiting_feerate: Option<u32>) -> (r: Result<(FeeChannelStats, Vec<HTLCAmountDirection>), ()>)
        ensures r is Ok ==> r->Ok_0.0 == acc_stats(*self, *funding, true, addl_nondust_htlc_count, feerate_per_kw, assume_fee_spike) { unimplemented!() }
    #[verifier::external_body] pub fn get_next_remote_commitment_stats(&self, funding: &AccFunding, htlc_candidate: Option<HTLCAmountDirection>, include_counterparty_unknown_htlcs: bool,
        addl_nondust_htlc_count: usize, feerate_per_kw: u32, assume_fee_spike: bool, dust_exposure_limiting_feerate: Option<u32>) -> (r: Result<(FeeChannelStats, Vec<HTLCAmountDirection>), ()>)
        ensures r is Ok ==> r->Ok_0.0 == acc_stats(*self, *funding, false, addl_nondust_htlc_count, feerate_per_kw, assume_fee_spike) { unimplemented!() }
//@extract lightning/src/ln/channel.rs :: impl ChannelContext :: fn can_accept_incoming_htlc
//@rw R5
    funding: &FundingScope
//@with
    funding: &AccFunding
//@rw R9
    .map(|(fee, _)| fee)
//@with
    .map(|p: (u32, FeeUpdateState)| -> (o: u32) ensures o == p.0 { p.0 })
//@rw R9 *
    .map_err(|()| { $e })?
//@with
    .map_err(|_e: ()| -> (o: LocalHTLCFailureReason) { $e })?
//@ret r
//@requires
    funding.holder_selected_channel_reserve_satoshis <= 21_000_000_0000_0000,
//@ensures P C01 an-incoming-htlc-is-accepted-only-if-at-the-higher-of-the-current-and-pending-feerate-with-the-fee-spike-buffer-both-dust-exposures-stay-within-our-limit-and-a-funding-peer-stays-above-our-reserve
    r is Ok ==> acc_stats(*self, *funding, false, acc_buffer(*funding), acc_feerate(*self), false).commitment_stats.dust_exposure_msat <= acc_max_dust(*self, dust_exposure_limiting_feerate)
        && acc_stats(*self, *funding, true, acc_buffer(*funding), acc_feerate(*self), false).commitment_stats.dust_exposure_msat <= acc_max_dust(*self, dust_exposure_limiting_feerate)
        && (!funding.outbound ==> acc_stats(*self, *funding, false, acc_buffer(*funding), acc_feerate(*self), true).commitment_stats.counterparty_balance_msat as int
                >= funding.holder_selected_channel_reserve_satoshis as int * 1000),
//@mutant fee_spike_reserve_check_skipped_for_inbound_channels
    if !funding.is_outbound() {
//@with
    if funding.is_outbound() {
//@mutant pending_higher_feerate_ignored
    cmp::max(self.feerate_per_kw, self.pending_update_fee.map(|(fee, _)| fee).unwrap_or(0))
//@with
    cmp::min(self.feerate_per_kw, self.pending_update_fee.map(|(fee, _)| fee).unwrap_or(u32::MAX))
//@end
}

// ---- the sender's own amount tests against the advertised send window (R15 slice of FundedChannel::send_htlc) ----
pub struct AvailableBalances { pub next_outbound_htlc_limit_msat: u64, pub next_outbound_htlc_minimum_msat: u64 }
pub enum SendFail { ZeroAmount, HTLCMinimum, HTLCMaximum }
//@extract lightning/src/ln/channel.rs :: impl FundedChannel :: fn send_htlc
//@rw R15
    fn send_htlc<F: FeeEstimator, L: Logger>($params:any) -> $ret { $pre:any if amount_msat == 0 { return Err($ez); } let available_balances = $ab; $tests:any if self.context.channel_state.is_peer_disconnected() { $pd:any } $rest:any }
//@with
    fn send_amount_tests(amount_msat: u64, available_balances: &AvailableBalances) -> Result<(), (SendFail, u8)> {
        if amount_msat == 0 { return Err((SendFail::ZeroAmount, 0)); }
        $tests
        Ok(())
    }
//@rw R8 *
    LocalHTLCFailureReason::$v:ident, format!($f:any),
//@with
    SendFail::$v, 0,
//@ret r
//@ensures P C01 an-htlc-is-sent-exactly-when-its-amount-lies-inside-the-send-window-computed-by-get_available_balances
    r is Ok <==> (amount_msat != 0 && available_balances.next_outbound_htlc_minimum_msat <= amount_msat <= available_balances.next_outbound_htlc_limit_msat),
//@mutant amount_above_the_limit_sent
    amount_msat > available_balances.next_outbound_htlc_limit_msat
//@with
    amount_msat > available_balances.next_outbound_htlc_limit_msat.saturating_add(1)
//@end

// ---- where an accepted outbound HTLC is recorded (R15 slice of FundedChannel::send_htlc: from `let need_holding_cell` to the end) ----
pub mod send_tail {
use vstd::prelude::*;
pub trait Logger {}
#[derive(Clone, Copy)] pub struct PaymentHash(pub u64);
pub struct HTLCSource { pub id: u64 } pub struct OnionPacket { pub id: u64 } pub struct PublicKey { pub id: u64 } pub struct Duration { pub id: u64 }
pub enum HTLCUpdateAwaitingACK { AddHTLC { amount_msat: u64, cltv_expiry: u32, payment_hash: PaymentHash, source: HTLCSource, onion_routing_packet: OnionPacket, skimmed_fee_msat: Option<u64>,
    blinding_point: Option<PublicKey>, hold_htlc: Option<()>, accountable: bool }, Other }
pub enum OutboundHTLCState { LocalAnnounced(Box<OnionPacket>), Committed }
pub struct OutboundHTLCOutput { pub htlc_id: u64, pub amount_msat: u64, pub cltv_expiry: u32, pub payment_hash: PaymentHash, pub state: OutboundHTLCState, pub source: HTLCSource,
    pub blinding_point: Option<PublicKey>, pub skimmed_fee_msat: Option<u64>, pub send_timestamp: Option<Duration>, pub hold_htlc: Option<()>, pub accountable: bool }
pub struct SendState { pub can_commit: bool }
impl SendState { #[verifier::external_body] pub fn can_generate_new_commitment(&self) -> (r: bool) ensures r == self.can_commit { unimplemented!() } }
pub struct SendCtx { pub channel_state: SendState, pub holding_cell_htlc_updates: Vec<HTLCUpdateAwaitingACK>, pub pending_outbound_htlcs: Vec<OutboundHTLCOutput>, pub next_holder_htlc_id: u64 }
pub struct SendChannel { pub context: SendCtx }
pub uninterp spec fn now() -> Option<Duration>;
#[verifier::external_body] pub fn duration_since_epoch() -> (r: Option<Duration>) ensures r == now() { unimplemented!() }
pub open spec fn flag(b: bool) -> Option<()> { if b { Some(()) } else { None } }
impl SendChannel {
//@extract lightning/src/ln/channel.rs :: impl FundedChannel :: fn send_htlc
//@strip msgs
//@slice R15
    let need_holding_cell = $n:seq; if need_holding_cell { $f:straight } if force_holding_cell { $held:any } $sent:any Ok(true) }
//@with
    fn record_the_outbound_htlc(&mut self, amount_msat: u64, payment_hash: PaymentHash, cltv_expiry: u32, source: HTLCSource, onion_routing_packet: OnionPacket, force_holding_cell_: bool,
        skimmed_fee_msat: Option<u64>, blinding_point: Option<PublicKey>, hold_htlc: bool, accountable: bool) -> Result<bool, (u8, u8)> {
        let mut force_holding_cell = force_holding_cell_;
        let need_holding_cell = $n; if need_holding_cell { $f } if force_holding_cell { $held } $sent Ok(true) }
//@rw R9 *
    hold_htlc.then(|| ())
//@with
    (if hold_htlc { Some(()) } else { None })
//@ret r
//@requires
    old(self).context.next_holder_htlc_id < u64::MAX,
//@ensures P C01 an-accepted-outbound-htlc-is-recorded-exactly-once-with-the-values-it-was-sent-with-held-back-when-no-commitment-can-be-generated-and-otherwise-announced-under-the-next-unused-id
    ({ let held = force_holding_cell_ || !old(self).context.channel_state.can_commit;
       &&& held ==> r == Ok::<bool, (u8, u8)>(false) && final(self).context.pending_outbound_htlcs@ == old(self).context.pending_outbound_htlcs@ && final(self).context.next_holder_htlc_id == old(self).context.next_holder_htlc_id
            && final(self).context.holding_cell_htlc_updates@ =~= old(self).context.holding_cell_htlc_updates@.push(HTLCUpdateAwaitingACK::AddHTLC { amount_msat, cltv_expiry, payment_hash, source, onion_routing_packet,
                    skimmed_fee_msat, blinding_point, hold_htlc: flag(hold_htlc), accountable })
       &&& !held ==> r == Ok::<bool, (u8, u8)>(true) && final(self).context.holding_cell_htlc_updates@ == old(self).context.holding_cell_htlc_updates@
            && final(self).context.next_holder_htlc_id == old(self).context.next_holder_htlc_id + 1
            && final(self).context.pending_outbound_htlcs@ =~= old(self).context.pending_outbound_htlcs@.push(OutboundHTLCOutput { htlc_id: old(self).context.next_holder_htlc_id, amount_msat, cltv_expiry, payment_hash,
                    state: OutboundHTLCState::LocalAnnounced(Box::new(onion_routing_packet)), source, blinding_point, skimmed_fee_msat, send_timestamp: now(), hold_htlc: flag(hold_htlc), accountable }) }),
//@mutant htlc_announced_although_no_commitment_can_be_generated
    if need_holding_cell { force_holding_cell = true; }
//@with
    if need_holding_cell { force_holding_cell = force_holding_cell; }
//@mutant next_htlc_id_not_advanced
    self.context.next_holder_htlc_id += 1;
//@with
    self.context.next_holder_htlc_id += 0;
//@end
}
}
}
fn main() {}
