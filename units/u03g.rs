//! unit: u03g
//! properties: C03 C02
//! note: ChannelManager::check_free_peer_holding_cells: what freeing a channel's holding cell hands on. The outbound HTLCs that could not be sent after all (the failures maybe_free_holding_cell_htlcs returns) are passed on - to fail_holding_cell_htlcs, which gives the payment its PaymentPathFailed / PaymentFailed or fails the forward back - WHENEVER there are any, also when freeing produced no monitor update (nothing else in the cell succeeded); an entry is skipped only when there is neither an update nor a failure. The entry that is passed on carries the channel's own id, its counterparty, the result of the update and those failures (fixed by the slice pattern)
//! trusted: R15 (deep slice): the test in front of the block that records a channel's result, verbatim as a function of the two values maybe_free_holding_cell_htlcs returned; the block is matched literally (`updates.push((*chan_id, cp_node_id, update_res, holding_cell_failed_htlcs))`), the monitor-update handling inside it is u09's
//! trusted: assume_specification for core::cmp::max / core::cmp::min (std definitions): present in every unit so that a change that introduces them is verified instead of being rejected by the tool
use vstd::prelude::*;
verus! {
use vstd::std_specs::cmp::*;
use core::cmp;
pub assume_specification<T: core::cmp::Ord>[core::cmp::max::<T>](a: T, b: T) -> (r: T)
    ensures T::obeys_cmp_spec() ==> r == (if b.cmp_spec(&a) == core::cmp::Ordering::Less { a } else { b });
pub assume_specification<T: core::cmp::Ord>[core::cmp::min::<T>](a: T, b: T) -> (r: T)
    ensures T::obeys_cmp_spec() ==> r == (if b.cmp_spec(&a) == core::cmp::Ordering::Less { b } else { a });
pub struct ChannelMonitorUpdate { pub id: u64 }
pub struct FailedHtlc { pub id: u64 }
//@extract lightning/src/ln/channelmanager.rs :: impl ChannelManager :: fn check_free_peer_holding_cells
//@slice R15
    if $c:cond { let update_res = $u:seq; let cp_node_id = chan.context.get_counterparty_node_id(); updates.push((*chan_id, cp_node_id, update_res, holding_cell_failed_htlcs)); }
//@with
    fn result_of_freeing_a_holding_cell_is_passed_on(monitor_opt: &Option<ChannelMonitorUpdate>, holding_cell_failed_htlcs: &Vec<FailedHtlc>) -> bool { $c }
//@ret r
//@ensures P C03,C02 the-htlcs-that-freeing-a-holding-cell-failed-are-passed-on-whenever-there-are-any-with-or-without-a-monitor-update
    r == (monitor_opt is Some || holding_cell_failed_htlcs@.len() > 0),
//@mutant holding_cell_failures_dropped_when_there_is_no_monitor_update
    if monitor_opt.is_some() || !holding_cell_failed_htlcs.is_empty() {
//@with
    if monitor_opt.is_some() {
//@end
}
fn main() {}
