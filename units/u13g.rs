//! unit: u13g
//! properties: C13 C17 C12
//! note: channel_update's `must_be_one` bit (msgs.rs, UnsignedChannelUpdate): the low bit of message_flags once announced the presence of htlc_maximum_msat, which is now always written; the writer sets the bit whatever the caller put in the field, the reader refuses a message without it (it would lack the field the reader goes on to read), and therefore every channel_update this node writes - to a peer, or into the stored network graph - is one it reads back (lemma over all flag bytes)
//! trusted: R15 (deep slices): the expression the writer writes in the message_flags position (between the timestamp and the channel flags) and the reader's final test, verbatim; the fixed-position fields around them are u13d's
//! plemma: C13 lemma_the_flags_a_writer_emits_pass_the_readers_test: for every byte f, (f | 1) & 1 == 1
//! plemma: C17 lemma_the_flags_a_writer_emits_pass_the_readers_test: the same lemma stands for C17 and C12 (relayed and stored channel_updates are written with this writer)
//! plemma: C12 lemma_the_flags_a_writer_emits_pass_the_readers_test: likewise
//! trusted: assume_specification for core::cmp::max / core::cmp::min (std definitions): present in every unit so that a change that introduces them is verified instead of being rejected by the tool
use vstd::prelude::*;
verus! {
use vstd::std_specs::cmp::*;
use core::cmp;
pub assume_specification<T: core::cmp::Ord>[core::cmp::max::<T>](a: T, b: T) -> (r: T)
    ensures T::obeys_cmp_spec() ==> r == (if b.cmp_spec(&a) == core::cmp::Ordering::Less { a } else { b });
pub assume_specification<T: core::cmp::Ord>[core::cmp::min::<T>](a: T, b: T) -> (r: T)
    ensures T::obeys_cmp_spec() ==> r == (if b.cmp_spec(&a) == core::cmp::Ordering::Less { b } else { a });
pub struct UnsignedChannelUpdate { pub timestamp: u32, pub message_flags: u8, pub channel_flags: u8 }
impl UnsignedChannelUpdate {
//@extract lightning/src/ln/msgs.rs :: impl Writeable for UnsignedChannelUpdate :: fn write
//@slice R15
    self.timestamp.write(w)?; ($f:seq).write(w)?; self.channel_flags.write(w)?;
//@with
    fn message_flags_as_written(&self) -> u8 { $f }
//@ret r
//@ensures P C13,C17,C12 a-channel-update-is-written-with-the-must-be-one-bit-set-and-its-other-message-flags-as-they-are
    r == self.message_flags | 1,
//@mutant message_flags_written_as_they_are
    (self.message_flags | 1).write(w)?;
//@with
    (self.message_flags).write(w)?;
//@end
}
//@extract lightning/src/ln/msgs.rs :: impl LengthReadable for UnsignedChannelUpdate :: fn read_from_fixed_length_buffer
//@slice R15
    if $c:cond { Err(DecodeError::InvalidValue) } else { Ok(res) }
//@with
    fn channel_update_without_the_must_be_one_bit_is_refused(res: &UnsignedChannelUpdate) -> bool { $c }
//@ret r
//@ensures P C13,C17,C12 a-channel-update-whose-must-be-one-bit-is-clear-is-refused
    r == (res.message_flags & 1 != 1),
//@end
pub proof fn lemma_the_flags_a_writer_emits_pass_the_readers_test(f: u8) ensures (f | 1) & 1 == 1 { assert((f | 1) & 1 == 1) by(bit_vector); }
}
fn main() {}
