use vstd::prelude::*;
verus! {
use vstd::std_specs::cmp::*;
use core::cmp;
pub assume_specification<T: core::cmp::Ord>[core::cmp::max::<T>](a: T, b: T) -> (r: T)
    ensures T::obeys_cmp_spec() ==> r == (if b.cmp_spec(&a) == core::cmp::Ordering::Less { a } else { b });
pub assume_specification<T: core::cmp::Ord>[core::cmp::min::<T>](a: T, b: T) -> (r: T)
    ensures T::obeys_cmp_spec() ==> r == (if b.cmp_spec(&a) == core::cmp::Ordering::Less { b } else { a });
// std definition of Result::or_else (trusted)
pub assume_specification<T, E, F, O: FnOnce(E) -> Result<T, F>>[core::result::Result::<T, E>::or_else](r: Result<T, E>, op: O) -> (o: Result<T, F>)
    requires r is Err ==> op.requires((r->Err_0,)),
    ensures r is Ok ==> o == Ok::<T, F>(r->Ok_0), r is Err ==> op.ensures((r->Err_0,), o);
// ---- constants (extracted from /repo on every run) ----
pub const MAX_BLOCKS_FOR_CONF: u32 = 18;

pub const CLTV_CLAIM_BUFFER: u32 = MAX_BLOCKS_FOR_CONF * 2;

pub const LATENCY_GRACE_PERIOD_BLOCKS: u32 = 3;

pub const ANTI_REORG_DELAY: u32 = 6;

pub const HTLC_FAIL_BACK_BUFFER: u32 = CLTV_CLAIM_BUFFER + LATENCY_GRACE_PERIOD_BLOCKS;

pub const MIN_CLTV_EXPIRY_DELTA: u16 = 6 * 8;

pub const CLTV_FAR_FAR_AWAY: u32 = 14 * 24 * 6;

pub const MIN_FINAL_CLTV_EXPIRY_DELTA: u16 = HTLC_FAIL_BACK_BUFFER as u16 + 3;


pub enum LocalHTLCFailureReason { FeeInsufficient, IncorrectCLTVExpiry, CLTVExpiryTooSoon, CLTVExpiryTooFar, OutgoingCLTVTooSoon, AmountBelowMinimum, UnknownNextPeer }
pub struct UpdateAddHTLC { pub htlc_id: u64, pub amount_msat: u64, pub cltv_expiry: u32, pub skimmed_fee_msat: Option<u64> }   // (every numeric field of the message, so that a change reading another one is verified)
#[derive(Clone, Copy)]
pub struct ChannelConfig { pub forwarding_fee_proportional_millionths: u32, pub forwarding_fee_base_msat: u32, pub cltv_expiry_delta: u16 }
pub struct ChannelContext { pub cfg: ChannelConfig, pub prev: Option<ChannelConfig>, pub counterparty_htlc_minimum_msat: u64 }
impl ChannelContext {
    #[verifier::external_body] pub fn config(&self) -> (r: ChannelConfig) ensures r == self.cfg { unimplemented!() }
    #[verifier::external_body] pub fn prev_config(&self) -> (r: Option<ChannelConfig>) ensures r == self.prev { unimplemented!() }
    // accessors of the CURRENT config (so that a change that reads the current policy where the passed-in one is meant is verified, not rejected)
    #[verifier::external_body] pub fn get_fee_proportional_millionths(&self) -> (r: u32) ensures r == self.cfg.forwarding_fee_proportional_millionths { unimplemented!() }
    #[verifier::external_body] pub fn get_outbound_forwarding_fee_base_msat(&self) -> (r: u32) ensures r == self.cfg.forwarding_fee_base_msat { unimplemented!() }
    #[verifier::external_body] pub fn get_cltv_expiry_delta(&self) -> (r: u16) ensures r >= self.cfg.cltv_expiry_delta { unimplemented!() }
    #[verifier::external_body] pub fn get_counterparty_htlc_minimum_msat(&self) -> (r: u64) ensures r == self.counterparty_htlc_minimum_msat { unimplemented!() }
}
pub struct FundedChannel { pub context: ChannelContext }

pub open spec fn fwd_fee(amt: int, c: &ChannelConfig) -> int { amt * (c.forwarding_fee_proportional_millionths as int) / 1000000 + c.forwarding_fee_base_msat as int }

impl FundedChannel {
fn internal_htlc_satisfies_config(
		&self, htlc: &UpdateAddHTLC, amt_to_forward: u64, outgoing_cltv_value: u32, config: &ChannelConfig,
	) -> (r: Result<(), LocalHTLCFailureReason>)
    ensures
    r is Ok ==> amt_to_forward as int + fwd_fee(amt_to_forward as int, config) <= htlc.amount_msat
             && outgoing_cltv_value as int + config.cltv_expiry_delta as int <= htlc.cltv_expiry,
    (amt_to_forward as int * (config.forwarding_fee_proportional_millionths as int) <= u64::MAX
       && amt_to_forward as int + fwd_fee(amt_to_forward as int, config) <= htlc.amount_msat
       && outgoing_cltv_value as int + config.cltv_expiry_delta as int <= htlc.cltv_expiry) ==> r is Ok,
 {
    proof { assert(amt_to_forward as int * (config.forwarding_fee_proportional_millionths as int) >= 0) by (nonlinear_arith)
                requires amt_to_forward >= 0, config.forwarding_fee_proportional_millionths >= 0; }

		let fee = amt_to_forward.checked_mul(config.forwarding_fee_proportional_millionths as u64)
			.and_then(|prop_fee: u64| -> (o: Option<u64>)
        ensures o == (if prop_fee as int / 1000000 + config.forwarding_fee_base_msat as int <= u64::MAX { Some((prop_fee as int / 1000000 + config.forwarding_fee_base_msat as int) as u64) } else { None::<u64> })
        { (prop_fee / 1000000).checked_add(config.forwarding_fee_base_msat as u64) });
		if fee.is_none() || htlc.amount_msat < fee.unwrap() ||
			(htlc.amount_msat - fee.unwrap()) < amt_to_forward {
			return Err(LocalHTLCFailureReason::FeeInsufficient);
		}
		if (htlc.cltv_expiry as u64) < outgoing_cltv_value as u64 + config.cltv_expiry_delta as u64 {
			return Err(LocalHTLCFailureReason::IncorrectCLTVExpiry);
		}
		Ok(())
	}

pub fn htlc_satisfies_config(
		&self, htlc: &UpdateAddHTLC, amt_to_forward: u64, outgoing_cltv_value: u32,
	) -> (r: Result<(), LocalHTLCFailureReason>)
    ensures
    r is Ok ==> ((amt_to_forward as int + fwd_fee(amt_to_forward as int, &self.context.cfg) <= htlc.amount_msat
                  && outgoing_cltv_value as int + self.context.cfg.cltv_expiry_delta as int <= htlc.cltv_expiry)
              || (self.context.prev is Some
                  && amt_to_forward as int + fwd_fee(amt_to_forward as int, &self.context.prev->Some_0) <= htlc.amount_msat
                  && outgoing_cltv_value as int + self.context.prev->Some_0.cltv_expiry_delta as int <= htlc.cltv_expiry)),
 {
		self.internal_htlc_satisfies_config(
			&htlc,
			amt_to_forward,
			outgoing_cltv_value,
			&self.context.config(),
		)
		.or_else(|err: LocalHTLCFailureReason| -> (o: Result<(), LocalHTLCFailureReason>)
        ensures o is Ok ==> self.context.prev is Some
            && amt_to_forward as int + fwd_fee(amt_to_forward as int, &self.context.prev->Some_0) <= htlc.amount_msat
            && outgoing_cltv_value as int + self.context.prev->Some_0.cltv_expiry_delta as int <= htlc.cltv_expiry
        {
			if let Some(prev_config) = self.context.prev_config() {
				self.internal_htlc_satisfies_config(
					htlc,
					amt_to_forward,
					outgoing_cltv_value,
					&prev_config,
				)
			} else {
				Err(err)
			}
		})
	}

}

// ---- the caller that admits a forward to a concrete outgoing channel (R15 slice: the last two statements of can_forward_htlc_to_outgoing_channel) ----
pub struct NextPacketDetails { pub outgoing_amt_msat: u64, pub outgoing_cltv_value: u32 }
fn can_forward_tail(chan: &mut FundedChannel, msg: &UpdateAddHTLC, next_packet: &NextPacketDetails) -> (r: Result<(), LocalHTLCFailureReason>)
    ensures
    r is Ok ==> next_packet.outgoing_amt_msat >= old(chan).context.counterparty_htlc_minimum_msat
        && ((next_packet.outgoing_amt_msat as int + fwd_fee(next_packet.outgoing_amt_msat as int, &old(chan).context.cfg) <= msg.amount_msat
                  && next_packet.outgoing_cltv_value as int + old(chan).context.cfg.cltv_expiry_delta as int <= msg.cltv_expiry)
              || (old(chan).context.prev is Some
                  && next_packet.outgoing_amt_msat as int + fwd_fee(next_packet.outgoing_amt_msat as int, &old(chan).context.prev->Some_0) <= msg.amount_msat
                  && next_packet.outgoing_cltv_value as int + old(chan).context.prev->Some_0.cltv_expiry_delta as int <= msg.cltv_expiry)),
 {
        if next_packet.outgoing_amt_msat < chan.context.get_counterparty_htlc_minimum_msat() {
			return Err(LocalHTLCFailureReason::AmountBelowMinimum);
		}
		chan.htlc_satisfies_config(msg, next_packet.outgoing_amt_msat, next_packet.outgoing_cltv_value)
    }


pub fn check_incoming_htlc_cltv(
	cur_height: u32, outgoing_cltv_value: u32, cltv_expiry: u32, min_cltv_expiry_delta: u16,
) -> (r: Result<(), LocalHTLCFailureReason>)
    requires
    cur_height <= 0x7fff_ffff,

    ensures
    r is Ok <==> (
            cltv_expiry as int >= outgoing_cltv_value + min_cltv_expiry_delta
         && cltv_expiry as int > cur_height + HTLC_FAIL_BACK_BUFFER
         && cltv_expiry as int <= cur_height + CLTV_FAR_FAR_AWAY
         && outgoing_cltv_value as int > cur_height + LATENCY_GRACE_PERIOD_BLOCKS),
 {
	if (cltv_expiry as u64) < (outgoing_cltv_value) as u64 + min_cltv_expiry_delta as u64 {
		return Err(LocalHTLCFailureReason::IncorrectCLTVExpiry);
	}
	
	
	
	if cltv_expiry <= cur_height + HTLC_FAIL_BACK_BUFFER as u32 {
		return Err(LocalHTLCFailureReason::CLTVExpiryTooSoon);
	}
	if cltv_expiry > cur_height + CLTV_FAR_FAR_AWAY as u32 {
		return Err(LocalHTLCFailureReason::CLTVExpiryTooFar);
	}
	
	
	
	
	
	
	
	
	if (outgoing_cltv_value) as u64 <= (cur_height + LATENCY_GRACE_PERIOD_BLOCKS) as u64 {
		return Err(LocalHTLCFailureReason::OutgoingCLTVTooSoon);
	}

	Ok(())
}

proof fn vac__check_incoming_htlc_cltv(cur_height: u32, outgoing_cltv_value: u32, cltv_expiry: u32, min_cltv_expiry_delta: u16,) 
    requires cur_height <= 0x7fff_ffff,
    ensures false
{}

// ---- a forward to a channel we do NOT have (to be intercepted, or a phantom hop): the arm of can_forward_htlc_should_intercept that stands in for the per-channel policy, and the expiry test every forward goes through (deep R15 slice) ----
pub struct Mgr { pub id: u64 }
pub uninterp spec fn phantom_scid(m: Mgr, scid: u64) -> bool;
pub uninterp spec fn intercept_unknown(m: Mgr, scid: u64) -> bool;
pub mod fake_scid { #[allow(unused_imports)] use super::*; use vstd::prelude::*;
    #[verifier::external_body] pub fn is_valid_phantom(m: &Mgr, scid: u64, h: &Mgr) -> (r: bool) ensures r == phantom_scid(*m, scid) { unimplemented!() } }
impl Mgr {
    #[verifier::external_body] pub fn forward_needs_intercept_to_unknown_chan(&self, scid: u64) -> (r: bool) ensures r == intercept_unknown(*self, scid) { unimplemented!() }
fn admit_a_forward_to_a_channel_we_do_not_have(&self, msg: &UpdateAddHTLC, next_hop: &NextPacketDetails, outgoing_scid: u64, cur_height: u32) -> (r: Result<bool, LocalHTLCFailureReason>)
    requires
    cur_height <= 0x7fff_ffff,

    ensures
    r is Ok ==> next_hop.outgoing_amt_msat <= msg.amount_msat
        && msg.cltv_expiry as int >= next_hop.outgoing_cltv_value + MIN_CLTV_EXPIRY_DELTA
        && msg.cltv_expiry as int > cur_height + HTLC_FAIL_BACK_BUFFER && msg.cltv_expiry as int <= cur_height + CLTV_FAR_FAR_AWAY
        && next_hop.outgoing_cltv_value as int > cur_height + LATENCY_GRACE_PERIOD_BLOCKS
        && (phantom_scid(*self, outgoing_scid) || intercept_unknown(*self, outgoing_scid))
        && r->Ok_0 == !phantom_scid(*self, outgoing_scid),
 {
        let intercept = { if next_hop.outgoing_amt_msat > msg.amount_msat {
						return Err(LocalHTLCFailureReason::FeeInsufficient);
					}
					let cltv_delta = msg.cltv_expiry.saturating_sub(next_hop.outgoing_cltv_value);
					if cltv_delta < MIN_CLTV_EXPIRY_DELTA.into() {
						return Err(LocalHTLCFailureReason::IncorrectCLTVExpiry);
					}

					if fake_scid::is_valid_phantom(
						self, outgoing_scid, self,
					) {
						false
					} else if self.forward_needs_intercept_to_unknown_chan(outgoing_scid) {
						true
					} else {
						return Err(LocalHTLCFailureReason::UnknownNextPeer);
					} };
        check_incoming_htlc_cltv( cur_height,
			next_hop.outgoing_cltv_value,
			msg.cltv_expiry,
			MIN_CLTV_EXPIRY_DELTA, )?; Ok(intercept) }

proof fn vac__admit_a_forward_to_a_channel_we_do_not_have(&self, msg: &UpdateAddHTLC, next_hop: &NextPacketDetails, outgoing_scid: u64, cur_height: u32) 
    requires cur_height <= 0x7fff_ffff,
    ensures false
{}
}
// (P, C08) the end-to-end race is won for every height / expiry, given the acceptance postcondition
pub proof fn lemma_forward_race(h: int, incoming: int, outgoing: int, delta: int)
    requires delta >= MIN_CLTV_EXPIRY_DELTA, incoming >= outgoing + delta
    ensures
        // downstream silent: we go on chain LATENCY_GRACE after its expiry, need two confirmations + burial,
        // and must still be LATENCY_GRACE before the upstream expiry
        outgoing + LATENCY_GRACE_PERIOD_BLOCKS + 2 * MAX_BLOCKS_FOR_CONF + ANTI_REORG_DELAY + LATENCY_GRACE_PERIOD_BLOCKS <= incoming,
        // downstream claims at the last moment: relaying the preimage leaves the upstream peer its claim buffer
        outgoing + (LATENCY_GRACE_PERIOD_BLOCKS - 1) + LATENCY_GRACE_PERIOD_BLOCKS + CLTV_CLAIM_BUFFER <= incoming,
{}

pub proof fn lemma_div_bound(p: int, prop: int, a: int)
    requires p >= 0, prop >= 0, a == (p * 1_000_000) / (prop + 1_000_000)
    ensures 0 <= a <= p, a + (a * prop) / 1_000_000 <= p
{
    assert(a * (prop + 1_000_000) <= p * 1_000_000) by (nonlinear_arith) requires a == (p * 1_000_000) / (prop + 1_000_000), prop + 1_000_000 > 0, p >= 0;
    assert(a >= 0) by (nonlinear_arith) requires a == (p * 1_000_000) / (prop + 1_000_000), prop + 1_000_000 > 0, p >= 0;
    assert(a * prop + a * 1_000_000 <= p * 1_000_000) by (nonlinear_arith) requires a * (prop + 1_000_000) <= p * 1_000_000;
    assert(a * prop >= 0) by (nonlinear_arith) requires a >= 0, prop >= 0;
    assert(a <= p);
    assert((a * prop) / 1_000_000 <= p - a) by (nonlinear_arith) requires a * prop + a * 1_000_000 <= p * 1_000_000, a * prop >= 0;
}
// blinded forwards
pub struct PaymentRelay { pub cltv_expiry_delta: u16, pub fee_proportional_millionths: u32, pub fee_base_msat: u32 }
pub open spec fn relay_fee(a: int, r: &PaymentRelay) -> int { a * (r.fee_proportional_millionths as int) / 1000000 + r.fee_base_msat as int }

pub fn amt_to_forward_msat(
	inbound_amt_msat: u64, payment_relay: &PaymentRelay,
) -> (r: Option<u64>)
    ensures
    r is Some ==> r->Some_0 > 0 && r->Some_0 as int + relay_fee(r->Some_0 as int, payment_relay) <= inbound_amt_msat,
 {
	let inbound_amt = inbound_amt_msat as u128;
	let base = payment_relay.fee_base_msat as u128;
	let prop = payment_relay.fee_proportional_millionths as u128;

	let post_base_fee_inbound_amt = inbound_amt.checked_sub(base)?;
	let fee_for = |amt_to_forward: u128| -> (o: u128)
        requires amt_to_forward <= 0xffff_ffff_ffff_ffff_ffff
        ensures o == (amt_to_forward * prop) / 1_000_000 + base, o <= 0xffff_ffff_ffff_ffff_ffff * 0xffff_ffff + 0xffff_ffff
        {
            assert(amt_to_forward * prop <= 0xffff_ffff_ffff_ffff_ffff * 0xffff_ffff) by (nonlinear_arith) requires amt_to_forward <= 0xffff_ffff_ffff_ffff_ffff, prop <= 0xffff_ffff;
            ((amt_to_forward * prop) / 1_000_000) + base };
    proof { assert(post_base_fee_inbound_amt * 1_000_000 <= 0xffff_ffff_ffff_ffff * 1_000_000) by (nonlinear_arith) requires post_base_fee_inbound_amt <= 0xffff_ffff_ffff_ffff; }


	
	
	
	
	
	let mut amt_to_forward = (post_base_fee_inbound_amt * 1_000_000) / (prop + 1_000_000);
    proof { lemma_div_bound(post_base_fee_inbound_amt as int, prop as int, amt_to_forward as int); }

	let one_more = amt_to_forward + 1;
	if inbound_amt >= one_more + fee_for(one_more) {
		amt_to_forward = one_more;
	}

	if amt_to_forward == 0 {
		return None;
	}
	debug_assert!(amt_to_forward + fee_for(amt_to_forward) <= inbound_amt);
	u64::try_from(amt_to_forward).ok()
}


// ---- blinded forwards: constraints and the (amount, expiry) handed downstream ----
pub struct PaymentConstraints { pub max_cltv_expiry: u32, pub htlc_minimum_msat: u64 }
pub struct BlindedHopFeatures {}
impl BlindedHopFeatures {
    #[verifier::external_body] pub fn empty() -> BlindedHopFeatures { unimplemented!() }
    #[verifier::external_body] pub fn requires_unknown_bits_from(&self, other: &BlindedHopFeatures) -> bool { unimplemented!() }
}
fn check_blinded_payment_constraints(
	amt_msat: u64, cltv_expiry: u32, constraints: &PaymentConstraints
) -> (r: Result<(), ()>)
    ensures
    r is Ok <==> (amt_msat >= constraints.htlc_minimum_msat && cltv_expiry <= constraints.max_cltv_expiry),
 {
	if amt_msat < constraints.htlc_minimum_msat ||
		cltv_expiry > constraints.max_cltv_expiry
	{ return Err(()) }
	Ok(())
}

fn check_blinded_forward(
	inbound_amt_msat: u64, inbound_cltv_expiry: u32, payment_relay: &PaymentRelay,
	payment_constraints: &PaymentConstraints, features: &BlindedHopFeatures
) -> (r: Result<(u64, u32), ()>)
    ensures
    r is Ok ==> ({
        let (a, c) = r->Ok_0;
        &&& a > 0 && a as int + relay_fee(a as int, payment_relay) <= inbound_amt_msat
        &&& c as int + payment_relay.cltv_expiry_delta as int == inbound_cltv_expiry
        &&& inbound_amt_msat >= payment_constraints.htlc_minimum_msat && inbound_cltv_expiry <= payment_constraints.max_cltv_expiry
    }),
 {
	let amt_to_forward = amt_to_forward_msat(
		inbound_amt_msat, payment_relay
	).ok_or(())?;
	let outgoing_cltv_value = inbound_cltv_expiry.checked_sub(
		payment_relay.cltv_expiry_delta as u32
	).ok_or(())?;
	check_blinded_payment_constraints(inbound_amt_msat, inbound_cltv_expiry, payment_constraints)?;

	if features.requires_unknown_bits_from(&BlindedHopFeatures::empty()) { return Err(()) }
	Ok((amt_to_forward, outgoing_cltv_value))
}


// ---- final hop (R15 statement slicing): the three acceptance tests of create_recv_pending_htlc_info, in their order ----
pub fn final_hop_acceptance_tests(onion_cltv_expiry: u32, cltv_expiry: u32, current_height: u32, allow_underpay: bool, onion_amt_msat: u64, amt_msat: u64, counterparty_skimmed_fee_msat: Option<u64>) -> (r: Result<(), u8>)
    requires
    current_height <= 0x7fff_ffff,

    ensures
    r is Ok ==> cltv_expiry as int > current_height + HTLC_FAIL_BACK_BUFFER + 1 && onion_cltv_expiry <= cltv_expiry,
    r is Ok ==> cltv_expiry as int - HTLC_FAIL_BACK_BUFFER as int > current_height + 1,
    r is Ok ==> (if allow_underpay { onion_amt_msat as int <= amt_msat as int + (if counterparty_skimmed_fee_msat is Some { counterparty_skimmed_fee_msat->Some_0 as int } else { 0 }) || amt_msat as int + (if counterparty_skimmed_fee_msat is Some { counterparty_skimmed_fee_msat->Some_0 as int } else { 0 }) > u64::MAX }
                 else { onion_amt_msat <= amt_msat }),
 {
        if onion_cltv_expiry > cltv_expiry { return Err(1); }
        if cltv_expiry <= current_height + HTLC_FAIL_BACK_BUFFER + 1 { return Err(2); }
        if (!allow_underpay && onion_amt_msat > amt_msat) ||
		(allow_underpay && onion_amt_msat >
		 amt_msat.saturating_add(counterparty_skimmed_fee_msat.unwrap_or(0))) { return Err(3); }
        Ok(())
    }

proof fn vac__final_hop_acceptance_tests(onion_cltv_expiry: u32, cltv_expiry: u32, current_height: u32, allow_underpay: bool, onion_amt_msat: u64, amt_msat: u64, counterparty_skimmed_fee_msat: Option<u64>) 
    requires current_height <= 0x7fff_ffff,
    ensures false
{}

// ---- when the monitor goes on chain for an HTLC (R15 slice of should_broadcast_holder_commitment_txn's scan_commitment! test) ----
pub struct HTLCOutputInCommitment { pub cltv_expiry: u32, pub offered: bool }
fn must_go_on_chain_for(htlc: &HTLCOutputInCommitment, htlc_outbound: bool, height: u32, preimage_known: bool) -> (r: bool)
    requires
    height <= 0x7fff_ffff, htlc.cltv_expiry <= 0x7fff_ffff,

    ensures
    r == ((htlc_outbound && height as int >= htlc.cltv_expiry + LATENCY_GRACE_PERIOD_BLOCKS)
       || (!htlc_outbound && preimage_known && height as int >= htlc.cltv_expiry as int - CLTV_CLAIM_BUFFER as int)),
 {
        ( htlc_outbound && htlc.cltv_expiry + LATENCY_GRACE_PERIOD_BLOCKS <= height ) || ( !htlc_outbound && htlc.cltv_expiry <= height + CLTV_CLAIM_BUFFER && preimage_known )
    }

proof fn vac__must_go_on_chain_for(htlc: &HTLCOutputInCommitment, htlc_outbound: bool, height: u32, preimage_known: bool) 
    requires height <= 0x7fff_ffff, htlc.cltv_expiry <= 0x7fff_ffff,
    ensures false
{}
fn htlc_is_ours_to_time_out(htlc: &HTLCOutputInCommitment, which_commitment: u8) -> (r: bool)
    ensures
    r == ((which_commitment == 0) == htlc.offered),
 {
        
        let m_holder_tx = if which_commitment == 0 { true } else if which_commitment == 1 { false } else { false };
        let htlc_outbound = m_holder_tx == htlc.offered; htlc_outbound
    }

// the only case in which the deadlines are not looked at: a spend of the funding output is already in a block
pub struct SpendTxid { pub id: u64 }
pub enum MonOnchainEvent { FundingSpendConfirmation { on_local_output_csv: Option<u16> }, HTLCUpdate { id: u64 }, MaturingOutput { id: u64 }, Other }
pub struct MonEventEntry { pub height: u32, pub event: MonOnchainEvent }
pub struct DeadlineMonitor { pub funding_spend_confirmed: Option<SpendTxid>, pub funding_spend_seen: bool, pub holder_tx_signed: bool, pub alternative_funding_confirmed: Option<(SpendTxid, u32)>, pub onchain_events_awaiting_threshold_conf: Vec<MonEventEntry> }
pub open spec fn funding_spend_in_a_block(m: &DeadlineMonitor) -> bool {
    m.funding_spend_confirmed is Some || (exists|k: int| 0 <= k < m.onchain_events_awaiting_threshold_conf@.len() && (#[trigger] m.onchain_events_awaiting_threshold_conf@[k]).event is FundingSpendConfirmation)
}
impl DeadlineMonitor {
fn htlc_deadlines_are_not_looked_at(&self) -> (r: bool)
    ensures
    r == funding_spend_in_a_block(self),
 {
        
        let mut __found = false; let mut __i: usize = 0;
        while __i < self.onchain_events_awaiting_threshold_conf.len()
            invariant __i <= self.onchain_events_awaiting_threshold_conf@.len(), __found == (exists|k: int| 0 <= k < __i && (#[trigger] self.onchain_events_awaiting_threshold_conf@[k]).event is FundingSpendConfirmation),
            decreases self.onchain_events_awaiting_threshold_conf@.len() - __i
        { let event = &self.onchain_events_awaiting_threshold_conf[__i]; let __b: bool = match event.event {
				MonOnchainEvent::FundingSpendConfirmation { .. } => true,
				_ => false,
			}; if __b { __found = true; } __i = __i + 1; }
        if self.funding_spend_confirmed.is_some() || __found { return true; }
        false
    }

}
// ---- what is actually offered downstream (deep R15 slice of ChannelManager::process_forward_htlcs: the first three arguments of the queue_add_htlc call) ----
#[derive(Clone, Copy)] pub struct FwdPaymentHash(pub [u8; 32]);
fn values_offered_downstream(outgoing_amt_msat: &u64, payment_hash: &FwdPaymentHash, outgoing_cltv_value: &u32) -> (r: (u64, FwdPaymentHash, u32))
    ensures
    r.0 == *outgoing_amt_msat && r.1 == *payment_hash && r.2 == *outgoing_cltv_value,
 { (*outgoing_amt_msat, *payment_hash, *outgoing_cltv_value) }


// ---- what a completed forward earned (deep R15 slice of ChannelManager::claim_funds_internal) ----
fn forward_fee_earned(htlc_claim_value_msat: Option<u64>, forwarded_htlc_value_msat: u64) -> (r: Option<u64>)
    requires
    htlc_claim_value_msat is Some ==> htlc_claim_value_msat->Some_0 >= forwarded_htlc_value_msat,

    ensures
    r == (if htlc_claim_value_msat is Some { Some((htlc_claim_value_msat->Some_0 - forwarded_htlc_value_msat) as u64) } else { None::<u64> }),
 { if let Some(claimed_htlc_value) = htlc_claim_value_msat {
								Some(claimed_htlc_value - forwarded_htlc_value_msat)
							} else {
								None
							} }

proof fn vac__forward_fee_earned(htlc_claim_value_msat: Option<u64>, forwarded_htlc_value_msat: u64) 
    requires // what forward admission established (internal_htlc_satisfies_config above): the amount claimed upstream covers the amount paid downstream htlc_claim_value_msat is Some ==> htlc_claim_value_msat->Some_0 >= forwarded_htlc_value_msat,
    ensures false
{}

// ---- when a held (intercepted) forward is given up (deep R15 slice of do_chain_event's sweep over pending_intercepted_htlcs) ----
pub struct PendingHTLCInfo { pub outgoing_cltv_value: u32 }
pub struct PendingAddHTLCInfo { pub forward_info: PendingHTLCInfo }
fn intercepted_htlc_is_failed_back(htlc: &PendingAddHTLCInfo, height: u32) -> (kept: bool)
    requires
    htlc.forward_info.outgoing_cltv_value >= HTLC_FAIL_BACK_BUFFER, height <= 0x7fff_ffff,

    ensures
    kept <==> height as int + HTLC_FAIL_BACK_BUFFER < htlc.forward_info.outgoing_cltv_value,
 {
        if height >= htlc.forward_info.outgoing_cltv_value - HTLC_FAIL_BACK_BUFFER { false } else { true }
    }

proof fn vac__intercepted_htlc_is_failed_back(htlc: &PendingAddHTLCInfo, height: u32) 
    requires htlc.forward_info.outgoing_cltv_value >= HTLC_FAIL_BACK_BUFFER, height <= 0x7fff_ffff,
    ensures false
{}
// ---- when an HTLC still waiting in the holding cell is given up (deep R15 slice of FundedChannel::do_best_block_updated) ----
fn holding_cell_add_is_kept(cltv_expiry: &u32, height: u32) -> (kept: bool)
    requires
    height <= 0x7fff_ffff,

    ensures
    kept <==> *cltv_expiry as int > height + LATENCY_GRACE_PERIOD_BLOCKS,
 {
        let unforwarded_htlc_cltv_limit = height + LATENCY_GRACE_PERIOD_BLOCKS;
        if *cltv_expiry <= unforwarded_htlc_cltv_limit { false } else { true }
    }

proof fn vac__holding_cell_add_is_kept(cltv_expiry: &u32, height: u32) 
    requires height <= 0x7fff_ffff,
    ensures false
{}
// ---- ... and every successful exit of do_best_block_updated hands those timed-out HTLCs back to be failed upstream (three deep R15 slices: the second component of each Ok tuple) ----
pub struct TimedOutHTLC { pub id: u64 }
fn handed_back_with_channel_ready(timed_out_htlcs: Vec<TimedOutHTLC>) -> (r: Vec<TimedOutHTLC>)
    ensures
    r@ == timed_out_htlcs@,
 { timed_out_htlcs }

fn handed_back_with_splice_locked(timed_out_htlcs: Vec<TimedOutHTLC>) -> (r: Vec<TimedOutHTLC>)
    ensures
    r@ == timed_out_htlcs@,
 { timed_out_htlcs }

fn handed_back_otherwise(timed_out_htlcs: Vec<TimedOutHTLC>) -> (r: Vec<TimedOutHTLC>)
    ensures
    r@ == timed_out_htlcs@,
 { timed_out_htlcs }

// (P, C08) with the heights above, the forwarding race of lemma_forward_race is the one the monitor really runs:
// downstream silent => on chain at outgoing + LATENCY; upstream claimable (preimage known) => on chain from incoming - CLTV_CLAIM_BUFFER
pub proof fn lemma_on_chain_heights_close_the_race(incoming: int, outgoing: int, delta: int)
    requires delta >= MIN_CLTV_EXPIRY_DELTA, incoming >= outgoing + delta
    ensures
        // the downstream timeout path (on chain at outgoing + LATENCY, two confirmations, burial) completes a grace period before
        // the upstream HTLC expires
        outgoing + LATENCY_GRACE_PERIOD_BLOCKS + 2 * MAX_BLOCKS_FOR_CONF + ANTI_REORG_DELAY + LATENCY_GRACE_PERIOD_BLOCKS <= incoming,
        // the upstream claim path starts (incoming - CLTV_CLAIM_BUFFER) no earlier than a preimage learned at the last moment downstream
        outgoing + (LATENCY_GRACE_PERIOD_BLOCKS - 1) + LATENCY_GRACE_PERIOD_BLOCKS <= incoming - CLTV_CLAIM_BUFFER,
{ lemma_forward_race(0, incoming, outgoing, delta); }
proof fn vac__lemma__lemma_forward_race(h: int, incoming: int, outgoing: int, delta: int)
    requires delta >= MIN_CLTV_EXPIRY_DELTA, incoming >= outgoing + delta,
    ensures false
{}
proof fn vac__lemma__lemma_div_bound(p: int, prop: int, a: int)
    requires p >= 0, prop >= 0, a == (p * 1_000_000) / (prop + 1_000_000),
    ensures false
{}
proof fn vac__lemma__lemma_on_chain_heights_close_the_race(incoming: int, outgoing: int, delta: int)
    requires delta >= MIN_CLTV_EXPIRY_DELTA, incoming >= outgoing + delta,
    ensures false
{}
}
fn main() {}

