#!/usr/bin/env python3
"""Print the markdown tables of DESIGN §7.1 for seed rounds 2 (R..) and 3 (T..) from /verif/seeded/*/meta.json
and /verif/seeded/annotations.json."""
import glob, json, os
V = os.path.dirname(os.path.dirname(os.path.abspath(__file__)))
ann = json.load(open(os.path.join(V, 'seeded', 'annotations.json')))


def rows(prefix):
    out = []
    for d in sorted(glob.glob(os.path.join(V, 'seeded', prefix + '*'))):
        sid = os.path.basename(d).split('-')[0]
        mp = os.path.join(d, 'meta.json')
        m = json.load(open(mp)) if os.path.exists(mp) else {}
        a = ann.get(sid, {})
        suite = next((r.get('summary', '') for r in m.get('ran', []) if r.get('step', '').startswith('patch only')), '')
        conf = 'confirmed' if m.get('confirmed') else ('not confirmed: ' + suite if m else 'not evaluated')
        det = m.get('detection', {})
        now = '; '.join('%s exit %s' % (p, v.get('exit')) for p, v in det.items())
        esc = lambda t: t.replace('|', '\\|')
        out.append('| %s | %s | %s | %s | %s | %s | %s (%s) |' % (sid, m.get('property', '?'), esc(a.get('change', '')), esc(a.get('needs', '')), esc(a.get('caught', '')), esc(a.get('obligation', '')), now, conf))
    return out


def tables():
    o = []
    for title, pre in (('Round 2', 'R'), ('Round 3', 'T'), ('Round 4', 'U'), ('Round 5', 'V'), ('Round 6', 'W'), ('Round 7', 'X'), ('Round 9', 'Z'), ('Round 10', 'Q'), ('Round 11', 'P'), ('Round 12', 'O'), ('Round 13', 'N')):
        o.append('**%s**\n' % title)
        o.append('| id | property | change | what it takes to manifest | caught by the checks as they were | obligation that fails now | check result with the change applied to /repo |')
        o.append('|---|---|---|---|---|---|---|')
        o.extend(rows(pre))
        o.append('')
    return '\n'.join(o)


if __name__ == '__main__':
    import sys
    t = tables()
    if '--write' in sys.argv:
        p = os.path.join(V, 'DESIGN.md')
        s = open(p).read()
        a = s.index('<!-- SEED_TABLES_BEGIN -->') + len('<!-- SEED_TABLES_BEGIN -->')
        b = s.index('<!-- SEED_TABLES_END -->')
        open(p, 'w').write(s[:a] + '\n' + t + '\n' + s[b:])
    else:
        print(t)
