#!/usr/bin/env python3
"""Which listed mechanisms of each property have code under contract.

For every mechanism bullet of every property (properties.jsonl: anchors.mechanism[].where = files and line ranges) list the
contracted functions and statement slices (from the assembled units: source file and lines of each extraction, for a slice
the lines of the sliced statements) that lie inside the bullet's ranges.  A bullet without line numbers is matched by file
(and, if it names functions, by function name).  Output: markdown table on stdout, or --json.

This is a map of where contracts are, not a claim of completeness: a bullet with entries is *partly* under contract.
"""
import json
import os
import re
import sys
sys.path.insert(0, '/verif')
from vf import driver as D


def parse_where(where, files):
    """-> list of (file, lo, hi) ; lo/hi None when the bullet gives no lines"""
    res = []
    cur = None
    # split on ';' and ',' but keep 'file:ranges, ranges'
    for part in re.split(r';', where):
        part = part.strip()
        m = re.match(r'([\w\-/\.]+\.rs)\s*:?\s*(.*)$', part)
        if m:
            f = m.group(1)
            full = [x for x in files if x.endswith(f)] or [f]
            cur = full[0]
            rest = m.group(2)
        else:
            rest = part
        if cur is None:
            continue
        rngs = re.findall(r'(\d+)\s*-\s*(\d+)', rest)
        if rngs:
            for a, b in rngs:
                res.append((cur, int(a), int(b)))
        else:
            res.append((cur, None, None))
    return res


def main():
    props = [json.loads(l) for l in open('/verif/properties.jsonl')]
    units = D.load_units()
    ext = []   # (unit, props, file, lo, hi, label, is_slice)
    for n, u in sorted(units.items()):
        asm = u.assemble()
        fnames = set()
        for f in asm.info['functions']:
            if f['contracted']:
                fnames.add(f['name'])
        for e in asm.info['extraction']:
            if ' fn ' not in (' ' + e['item']) and 'macro_rules' not in e['item']:
                continue
            lo, hi = [int(x) for x in e['lines'].split('-')]
            sl = [re.search(r'slice \[lines (\d+)-(\d+)\].*?-> `(?:pub )?(?:async )?fn (\w+)', a) for a in e.get('applications', [])]
            sl = [m for m in sl if m]
            label = e['item'].split(' :: ')[-1].replace('fn ', '')
            if sl:
                for m in sl:
                    ext.append((n, u.header['properties'], e['file'], int(m.group(1)), int(m.group(2)), label + ' (slice `%s`)' % m.group(3), True))
            else:
                ext.append((n, u.header['properties'], e['file'], lo, hi, label, False))
    rows = []
    for p in props:
        files = p['anchors']['files']
        for k, mech in enumerate(p['anchors'].get('mechanism', []), 1):
            rng = parse_where(mech['where'], files)
            hits = []
            words = set(re.findall(r'[A-Za-z_][A-Za-z_0-9]{3,}', mech['name'] + ' ' + mech['where']))
            singles = [(rf2, int(x)) for (rf2, a2, b2) in rng for x in re.findall(r':(\d+)(?![\d-])', mech['where'])]
            for (n, ups, f, lo, hi, label, is_slice) in ext:
                if p['id'] not in ups:
                    continue
                base = label.split(' ')[0]
                hit = base in words          # the bullet names the function
                for (rf, a, b) in rng:
                    if not (f == rf or f.endswith(rf) or rf.endswith(f)):
                        continue
                    if a is not None and lo <= b and hi >= a:
                        hit = True
                    if a is None and not re.search(r'\d', mech['where']):
                        hit = True           # the bullet names a whole file
                for (rf, x) in singles:
                    if (f == rf or f.endswith(rf) or rf.endswith(f)) and lo <= x <= hi:
                        hit = True
                if hit:
                    hits.append('%s %s' % (n, label))
            seen = []
            for h in hits:
                if h not in seen:
                    seen.append(h)
            rows.append({'property': p['id'], 'bullet': k, 'mechanism': mech['name'], 'where': mech['where'], 'under_contract': seen})
    if '--write' in sys.argv:
        out = ['| property | # | mechanism (as listed in the property) | contracted functions / statement slices inside it |', '|---|---|---|---|']
        for r in rows:
            uc = '; '.join(r['under_contract'])
            out.append('| %s | %d | %s | %s |' % (r['property'], r['bullet'], r['mechanism'].replace('|', '\\|')[:170], uc or '**none**'))
        none = [r for r in rows if not r['under_contract']]
        out.append('')
        out.append('%d mechanism bullets; %d have at least one contracted function or slice inside them, %d have none (%s).' % (len(rows), len(rows) - len(none), len(none), ', '.join('%s #%d' % (r['property'], r['bullet']) for r in none)))
        d = open('/verif/DESIGN.md').read()
        a, b = d.index('<!-- MECH_TABLE_BEGIN -->'), d.index('<!-- MECH_TABLE_END -->')
        d = d[:a] + '<!-- MECH_TABLE_BEGIN -->\n' + '\n'.join(out) + '\n' + d[b:]
        open('/verif/DESIGN.md', 'w').write(d)
        return
    if '--json' in sys.argv:
        json.dump(rows, sys.stdout, indent=1)
        return
    print('| property | # | mechanism (as listed in the property) | contracted functions / slices inside it |')
    print('|---|---|---|---|')
    for r in rows:
        uc = '; '.join(r['under_contract'][:14]) + (' … (+%d)' % (len(r['under_contract']) - 14) if len(r['under_contract']) > 14 else '')
        print('| %s | %d | %s | %s |' % (r['property'], r['bullet'], r['mechanism'].replace('|', '\\|')[:150], uc or '**none**'))
    none = [r for r in rows if not r['under_contract']]
    print()
    print('%d mechanism bullets, %d with at least one contracted function or slice inside, %d with none' % (len(rows), len(rows) - len(none), len(none)))


if __name__ == '__main__':
    main()
