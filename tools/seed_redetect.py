#!/usr/bin/env python3
"""Re-run the detection step for stored seeds (after the checks were extended) and record both results.
usage: tools/seed_redetect.py <seed-id-prefix> [<seed-id-prefix> ...]
meta.json keeps the first result as `detection_as_arrived` and gets the new one as `detection` / `detected_by`."""
import fcntl, glob, json, os, subprocess, sys, time
VERIF, REPO = '/verif', '/repo'
def sh(cmd, cwd=None, timeout=7200):
    pr = subprocess.run(cmd, shell=True, cwd=cwd, capture_output=True, text=True, timeout=timeout)
    return pr.returncode, pr.stdout + pr.stderr
for pref in sys.argv[1:]:
    for d in sorted(glob.glob(os.path.join(VERIF, 'seeded', pref + '*'))):
        mp = os.path.join(d, 'meta.json'); meta = json.load(open(mp))
        checks = list(meta['detection'].keys())
        lockf = open('/tmp/seed_detect.flock', 'w'); fcntl.flock(lockf, fcntl.LOCK_EX)
        assert sh('git -C %s status --porcelain' % REPO)[1].strip() == '', '/repo is not clean'
        open('/tmp/verif_repo_patched.lock', 'w').write(meta['id'])
        os.environ['VERIF_SEED_EVAL'] = '1'
        rc, out = sh('git -C %s apply %s' % (REPO, os.path.join(d, 'patch.diff'))); assert rc == 0, out
        det = {}
        try:
            for c in checks:
                t0 = time.time(); rc, out = sh('./check %s' % c, cwd=VERIF)
                lines = [l for l in out.split('\n') if l.startswith('VIOLATION') or l.startswith('UNDECIDED') or l.startswith('OK ') or 'failed obligation' in l]
                det[c] = {'exit': rc, 'wall_s': round(time.time() - t0, 1), 'lines': lines[:8]}
        finally:
            sh('git -C %s checkout -- .' % REPO)
            try: os.remove('/tmp/verif_repo_patched.lock')
            except OSError: pass
        fcntl.flock(lockf, fcntl.LOCK_UN)
        if 'detection_as_arrived' not in meta:
            meta['detection_as_arrived'] = meta['detection']
        meta['detection'] = det; meta['detected_by'] = [c for c, v in det.items() if v['exit'] == 1]
        json.dump(meta, open(mp, 'w'), indent=1)
        print(meta['id'][:8], {c: v['exit'] for c, v in det.items()}, flush=True)
