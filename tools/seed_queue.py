#!/usr/bin/env python3
"""Run seed evaluations from a queue file, up to N at a time (detection is serialised inside seed_eval by a flock).
usage: tools/seed_queue.py <queue-file> [N]     queue lines: <src-dir> <seed-id> <property> [extra seed_eval args]; a line END stops the runner."""
import subprocess, sys, time, os
q = sys.argv[1]
N = int(sys.argv[2]) if len(sys.argv) > 2 else 3
done = 0
running = []
stop = False
while True:
    lines = [l.strip() for l in open(q) if l.strip() and not l.startswith('#')]
    running = [(p, l) for (p, l) in running if p.poll() is None]
    while done < len(lines) and len(running) < N:
        l = lines[done]
        done += 1
        if l == 'END':
            stop = True
            break
        a = l.split()
        log = open('/tmp/seed_%s.log' % a[1].split('-')[0], 'w')
        running.append((subprocess.Popen(['python3', 'tools/seed_eval.py'] + a, cwd='/verif', stdout=log, stderr=subprocess.STDOUT), l))
    if stop and not running:
        break
    time.sleep(15)
