#!/usr/bin/env python3
"""Re-run only the two demonstration steps (clean tree + demo passes, patched tree + demo fails) of stored seeds and
update their meta.json; the whole-suite step and the detection recorded earlier are kept.
usage: tools/seed_redemo.py <seed-id-prefix>... [--crate X] [--suite]   (--suite: re-run the whole existing suite with the patch as well)"""
import fcntl, glob, json, os, re, subprocess, sys

VERIF = '/verif'
REPO = '/repo'


def sh(cmd, cwd=None, timeout=3600):
    p = subprocess.run(cmd, shell=True, cwd=cwd, stdout=subprocess.PIPE, stderr=subprocess.STDOUT, text=True, timeout=timeout,
                       env=dict(os.environ, CARGO_NET_OFFLINE='true'))
    return p.returncode, p.stdout


def main():
    crate = 'lightning'
    args = sys.argv[1:]
    suite = '--suite' in args
    if suite:
        args.remove('--suite')
    if '--crate' in args:
        crate = args[args.index('--crate') + 1]
        del args[args.index('--crate'):args.index('--crate') + 2]
    slot_lock = None
    for k in range(8):
        f = open('/tmp/seed_slot_%d.lock' % k, 'w')
        try:
            fcntl.flock(f, fcntl.LOCK_EX | fcntl.LOCK_NB)
            slot_lock = f
            wt = '/tmp/wt_confirm_slot%d' % k
            break
        except OSError:
            f.close()
    assert slot_lock is not None, 'no free confirmation slot'
    head = sh('git -C %s rev-parse HEAD' % REPO)[1].strip()
    if os.path.exists(os.path.join(wt, '.git')):
        rc, out = sh('git checkout -q --detach %s && git checkout -q -- . && git clean -fdq -e target' % head, cwd=wt)
        assert rc == 0, out
    else:
        rc, out = sh('git -C %s worktree add --detach %s HEAD' % (REPO, wt))
        assert rc == 0, out
    for pre in args:
        for d in sorted(glob.glob(os.path.join(VERIF, 'seeded', pre + '*'))):
            mp = os.path.join(d, 'meta.json')
            meta = json.load(open(mp))
            tests = meta['demo_tests']
            flt = os.path.commonprefix(tests) if len(tests) > 1 and len(os.path.commonprefix(tests)) >= 6 else ' '.join(tests[:1])
            democmd = 'cargo test --lib --offline ' + flt
            try:
                rc, out = sh('git apply %s' % os.path.join(d, 'demo.diff'), cwd=wt)
                assert rc == 0, out
                rc1, out1 = sh(democmd + ' 2>&1 | tail -15', cwd=os.path.join(wt, crate))
                ok_clean = 'test result: ok' in out1 and ' 0 passed' not in out1
                rc, out = sh('git apply %s' % os.path.join(d, 'patch.diff'), cwd=wt)
                assert rc == 0, out
                rc2, out2 = sh(democmd + ' 2>&1 | tail -25', cwd=os.path.join(wt, crate))
                fails_patched = 'test result: FAILED' in out2
                suite_rec = None
                if suite:
                    sh('git apply -R %s' % os.path.join(d, 'demo.diff'), cwd=wt)
                    rc3, out3 = sh('cargo nextest run --workspace --no-fail-fast --tool-config-file pb:/w/lib/nextest.toml --profile pb --test-threads 8 --offline 2>&1 | tail -60', cwd=wt, timeout=7200)
                    m = re.search(r'(\d+) tests run: (\d+) passed(?: \([^)]*\))?, (\d+) failed', out3)
                    ok = bool(m) and int(m.group(2)) == 1807 and int(m.group(3)) == 3
                    suite_rec = {'step': 'patch only: whole existing suite', 'cmd': 'cargo nextest run --workspace ... (baseline command; re-run on a quiet machine)', 'summary': m.group(0) if m else out3[-900:], 'same_as_baseline': ok,
                                 'failing': sorted(set(re.findall(r'FAIL \[[^\]]*\] \(\S+\) (\S+ \S+)', out3)))}
            finally:
                sh('git checkout -q -- . && git clean -fdq -e target', cwd=wt)
            ran = [r for r in meta['ran'] if r.get('step') not in ('clean + demo', 'patch + demo')]
            if suite_rec is not None:
                ran = [r for r in ran if not r.get('step', '').startswith('patch only')] + [suite_rec]
            ran = [{'step': 'clean + demo', 'cmd': democmd, 'passed': ok_clean, 'tail': out1[-400:]},
                   {'step': 'patch + demo', 'cmd': democmd, 'failed_as_expected': fails_patched, 'tail': out2[-600:]}] + ran
            meta['ran'] = ran
            suite_ok = any(r.get('same_as_baseline') for r in ran)
            meta['confirmed'] = bool(ok_clean and fails_patched and suite_ok)
            json.dump(meta, open(mp, 'w'), indent=1)
            print(meta['id'], 'clean+demo', ok_clean, 'patch+demo fails', fails_patched, 'suite', suite_ok, 'confirmed', meta['confirmed'], flush=True)
    slot_lock.close()


if __name__ == '__main__':
    main()
