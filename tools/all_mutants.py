#!/usr/bin/env python3
"""Run every unit's canary mutants and list those that were not rejected (status other than `violation`).
usage: tools/all_mutants.py [unit ...]"""
import os, subprocess, sys, time
sys.path.insert(0, os.path.dirname(os.path.dirname(os.path.abspath(__file__))))
from vf import driver as D
us = D.load_units()
names = sys.argv[1:] or sorted(us)
bad = []; total = 0
for n in names:
    while subprocess.run('git -C /repo status --porcelain', shell=True, capture_output=True, text=True).stdout.strip():
        time.sleep(5)
    for r in D.run_mutants(us[n], jobs=6):
        total += 1
        if r[2] != 'violation':
            bad.append((n,) + tuple(r)); print('NOT REJECTED', n, r[0], r[2], str(r[4])[:200], flush=True)
print('mutants', total, 'not rejected', len(bad))
