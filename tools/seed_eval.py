#!/usr/bin/env python3
"""Confirm a seeded property-breaking change and run the checks against it.

usage: tools/seed_eval.py <seed-src-dir> <seed-id> <property> [--checks C01,C02] [--skip-confirm] [--crate lightning]

<seed-src-dir> holds patch.diff, demo.diff and README.md written by an independent sub-agent in its scratch
worktree.  Steps (nothing is ever committed to /repo):
  A. confirm in a scratch worktree /tmp/wt_confirm (created from /repo HEAD, removed afterwards):
       clean + demo            -> demonstration passes
       clean + patch + demo    -> demonstration fails
       clean + patch           -> the whole existing test suite still passes (same counts as the baseline)
  B. detect: git -C /repo apply patch.diff; ./check <p> for the listed properties; git -C /repo checkout -- .
  C. store /verif/seeded/<id>/{patch.diff, demo.diff, README.md, meta.json}
"""
import json
import os
import re
import shutil
import subprocess
import sys
import time

VERIF = '/verif'
REPO = '/repo'
WT = '/tmp/wt_confirm'
import fcntl


def sh(cmd, cwd=None, timeout=3600):
    pr = subprocess.run(cmd, shell=True, cwd=cwd, capture_output=True, text=True, timeout=timeout)
    return pr.returncode, pr.stdout + pr.stderr


def main():
    src, sid, prop = sys.argv[1:4]
    checks = [prop]
    crate = 'lightning'
    if '--checks' in sys.argv:
        checks = sys.argv[sys.argv.index('--checks') + 1].split(',')
    if '--crate' in sys.argv:
        crate = sys.argv[sys.argv.index('--crate') + 1]
    meta = {'id': sid, 'property': prop, 'source': 'independent sub-agent given only the property text and a scratch worktree', 'ran': []}
    patch = os.path.join(src, 'patch.diff')
    demo = os.path.join(src, 'demo.diff')
    names = re.findall(r'^\+\s*(?:pub\s+)?(?:async\s+)?fn\s+(\w+)\s*\(', open(demo).read(), re.M)
    dtxt = open(demo).read()
    tests = re.findall(r'^\+\s*#\[(?:tokio::)?test\]\s*\n(?:\+\s*#\[[^\n]*\]\s*\n)*\+\s*(?:pub\s+)?(?:async\s+)?fn\s+(\w+)', dtxt, re.M) or names
    meta['demo_tests'] = tests
    global WT
    WT = '/tmp/wt_confirm_' + sid.split('-')[0]
    # B. detection (serialised across concurrent seed evaluations: /repo is patched only while this lock is held)
    lockf = open('/tmp/seed_detect.flock', 'w')
    fcntl.flock(lockf, fcntl.LOCK_EX)
    rc, out = sh('git -C %s status --porcelain' % REPO)
    assert out.strip() == '', '/repo is not clean'
    open('/tmp/verif_repo_patched.lock', 'w').write(sid)
    os.environ['VERIF_SEED_EVAL'] = '1'
    rc, out = sh('git -C %s apply %s' % (REPO, patch))
    assert rc == 0, out
    det = {}
    try:
        for c in checks:
            t0 = time.time()
            rc, out = sh('./check %s' % c, cwd=VERIF, timeout=7200)
            lines = [l for l in out.split('\n') if l.startswith('VIOLATION') or l.startswith('UNDECIDED') or l.startswith('OK ') or 'failed obligation' in l]
            det[c] = {'exit': rc, 'wall_s': round(time.time() - t0, 1), 'lines': lines[:8]}
    finally:
        sh('git -C %s checkout -- .' % REPO)
        try:
            os.remove('/tmp/verif_repo_patched.lock')
        except OSError:
            pass
    fcntl.flock(lockf, fcntl.LOCK_UN)
    meta['detection'] = det
    meta['detected_by'] = [c for c, v in det.items() if v['exit'] == 1]
    print('detection done:', json.dumps(det)[:600], flush=True)
    if '--skip-confirm' not in sys.argv:
        # one persistent scratch worktree per concurrency slot: its target/ directory is kept between evaluations so that
        # only the crates a seed touches are rebuilt (removed with `git worktree remove --force` when all seeds are done)
        slot_lock = None
        for k in range(8):
            f = open('/tmp/seed_slot_%d.lock' % k, 'w')
            try:
                fcntl.flock(f, fcntl.LOCK_EX | fcntl.LOCK_NB)
                slot_lock = f
                WT = '/tmp/wt_confirm_slot%d' % k
                break
            except OSError:
                f.close()
        assert slot_lock is not None, 'no free confirmation slot'
        if os.path.isdir(os.path.join(WT, '.git')) or os.path.isfile(os.path.join(WT, '.git')):
            head = sh('git -C %s rev-parse HEAD' % REPO)[1].strip()
            rc, out = sh('git checkout -q --detach %s && git checkout -q -- . && git clean -fdq -e target' % head, cwd=WT)
            assert rc == 0, out
        else:
            rc, out = sh('git -C %s worktree add --detach %s HEAD' % (REPO, WT))
            assert rc == 0, out
        try:
            flt = os.path.commonprefix(tests) if len(tests) > 1 and len(os.path.commonprefix(tests)) >= 6 else ' '.join(tests[:1])
            democmd = 'cargo test --lib --offline ' + flt
            if '--demo-cmd' in sys.argv:
                democmd = sys.argv[sys.argv.index('--demo-cmd') + 1].replace('+', ' ')   # '+' stands for a space (queue lines are split on blanks)
            rc, out = sh('git apply %s' % demo, cwd=WT)
            assert rc == 0, 'demo.diff does not apply: ' + out
            rc1, out1 = sh(democmd + ' 2>&1 | tail -15', cwd=os.path.join(WT, crate))
            ok_clean = 'test result: ok' in out1 and ' 0 passed' not in out1
            meta['ran'].append({'step': 'clean + demo', 'cmd': democmd, 'passed': ok_clean, 'tail': out1[-400:]})
            rc, out = sh('git apply %s' % patch, cwd=WT)
            assert rc == 0, 'patch.diff does not apply: ' + out
            rc2, out2 = sh(democmd + ' 2>&1 | tail -25', cwd=os.path.join(WT, crate))
            fails_patched = 'test result: FAILED' in out2
            meta['ran'].append({'step': 'patch + demo', 'cmd': democmd, 'failed_as_expected': fails_patched, 'tail': out2[-600:]})
            sh('git apply -R %s' % demo, cwd=WT)
            rc3, out3 = sh('cargo nextest run --workspace --no-fail-fast --tool-config-file pb:/w/lib/nextest.toml --profile pb --test-threads 8 --offline 2>&1 | tail -40', cwd=WT, timeout=7200)
            m = re.search(r'(\d+) tests run: (\d+) passed(?: \([^)]*\))?, (\d+) failed', out3)
            suite_ok = bool(m) and int(m.group(2)) == 1807 and int(m.group(3)) == 3
            meta['ran'].append({'step': 'patch only: whole existing suite', 'cmd': 'cargo nextest run --workspace ... (baseline command)', 'summary': m.group(0) if m else out3[-900:], 'same_as_baseline': suite_ok,
                                'failing': sorted(set(re.findall(r'FAIL \[[^\]]*\] \(\S+\) (\S+ \S+)', out3)))})
            meta['confirmed'] = bool(ok_clean and fails_patched and suite_ok)
        finally:
            sh('git checkout -q -- . && git clean -fdq -e target', cwd=WT)
            slot_lock.close()
    dst = os.path.join(VERIF, 'seeded', sid)
    os.makedirs(dst, exist_ok=True)
    for f in ('patch.diff', 'demo.diff', 'README.md'):
        if os.path.exists(os.path.join(src, f)):
            shutil.copy(os.path.join(src, f), os.path.join(dst, f))
    rd = os.path.join(src, 'README.md')
    meta['needs_to_manifest'] = open(rd).read()[:1500] if os.path.exists(rd) else ''
    json.dump(meta, open(os.path.join(dst, 'meta.json'), 'w'), indent=1)
    print(json.dumps({k: meta[k] for k in ('id', 'property', 'confirmed', 'detected_by') if k in meta}, indent=1))
    print(json.dumps(det, indent=1))


if __name__ == '__main__':
    main()
