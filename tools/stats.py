#!/usr/bin/env python3
"""Counts for DESIGN §7 (computed from the unit templates and the Kani registry)."""
import os, sys, json
sys.path.insert(0, '/verif')
from vf import driver as D, kani as K
units = D.load_units()
tot = {'units': 0, 'slices': 0, 'fns': 0, 'pclauses': 0, 'clauses': 0, 'plemmas': 0, 'mutants': 0, 'loc': 0}
rows = []
for n, u in sorted(units.items()):
    asm = u.assemble()
    info = asm.info
    fns = [f for f in info['functions'] if f['contracted']]
    pc = [c for c in info['clauses'] if c['tag'].startswith('P ')]
    pl = u.header.get('plemma', [])
    rows.append((n, ' '.join(u.header['properties']), len(fns), len(info['clauses']), len(pc), len(pl), len(info['mutants']), info['loc']))
    tot['units'] += 1; tot['fns'] += len(fns); tot['slices'] += len([f for f in fns if f.get('slice')]); tot['pclauses'] += len(pc); tot['clauses'] += len(info['clauses']); tot['plemmas'] += len(pl)
    tot['mutants'] += len(info['mutants']); tot['loc'] += info['loc']
print('unit props fns clauses Pclauses plemmas mutants loc')
for r in rows:
    print(*r)
print(tot)
hs = set()
for p in ('C04', 'C12', 'C13', 'C14', 'C18'):
    for g in K.groups_for(p, 'thorough'):
        for h in g['harnesses']:
            hs.add((h['id'], bool(h.get('bounded'))))
print('kani harnesses complete', len([h for h in hs if not h[1]]), 'bounded', len([h for h in hs if h[1]]))
