#!/usr/bin/env python3
"""Apply each harmless edit of /verif/benign/edits.json to a scratch worktree of /repo and run every unit against it.
A harmless edit must never give status `violation` (exit 1); `undecided` (exit 2: an anchor was lost) is tolerated and counted.
usage: tools/benign.py [--only NAME]"""
import json, os, re, subprocess, sys
V = os.path.dirname(os.path.dirname(os.path.abspath(__file__)))
WT = '/tmp/wt_benign'


def sh(cmd, cwd=None, env=None):
    pr = subprocess.run(cmd, shell=True, cwd=cwd, capture_output=True, text=True, env=env)
    return pr.returncode, pr.stdout + pr.stderr


def main():
    edits = json.load(open(os.path.join(V, 'benign', 'edits.json')))
    only = sys.argv[sys.argv.index('--only') + 1] if '--only' in sys.argv else None
    sh('git -C /repo worktree remove --force %s' % WT)
    rc, out = sh('git -C /repo worktree add --detach %s HEAD' % WT)
    assert rc == 0, out
    units = sorted(f[:-3] for f in os.listdir(os.path.join(V, 'units')) if f.endswith('.rs'))
    bad = 0
    try:
        for e in edits:
            if only and e['name'] != only:
                continue
            sh('git checkout -q -- .', cwd=WT)
            p = os.path.join(WT, e['file'])
            s = open(p).read()
            n = s.count(e['old'])
            if n != e.get('count', 1):
                print('%-40s SKIP (pattern occurs %d times)' % (e['name'], n))
                continue
            open(p, 'w').write(s.replace(e['old'], e['new']))
            if e.get('compile_check'):
                rc, out = sh('cargo check --offline -q -p %s 2>&1 | tail -3' % e['compile_check'], cwd=WT)
            res = {}
            env = dict(os.environ, VERIF_REPO=WT)
            for u in (e.get('units') or units):
                rc, out = sh('python3 -m vf.dev %s' % u, cwd=V, env=env)
                m = re.search(r'^status (\w+)', out, re.M)
                res[u] = m.group(1) if m else 'error'
            viol = [u for u, st in res.items() if st == 'violation']
            und = [u for u, st in res.items() if st not in ('ok', 'violation')]
            print('%-40s violation=%s undecided=%s' % (e['name'], viol or '-', und or '-'), flush=True)
            bad += len(viol)
    finally:
        sh('git -C /repo worktree remove --force %s' % WT)
    print('FALSE ALARMS: %d' % bad)
    sys.exit(1 if bad else 0)


if __name__ == '__main__':
    main()
