// Native replay of a counterexample against the real crates (built with RUSTFLAGS="--cfg ldk_verif").
// usage: verif-replay <module> <contract> <arg>...      prints Holds | Violated | Vacuous
fn dispatch(module: &str, name: &str, args: &[u128]) -> Option<String> {
	use lightning::verif_api as l;
	use lightning_invoice::verif_api as i;
	match module {
		"ser" => l::ser::replay(name, args).map(|o| format!("{:?}", o)),
		"msgs" => l::msgs::replay(name, args).map(|o| format!("{:?}", o)),
		"wire" => l::wire::replay(name, args).map(|o| format!("{:?}", o)),
		"onion_utils" => l::onion_utils::replay(name, args).map(|o| format!("{:?}", o)),
		"inbound_payment" => l::inbound_payment::replay(name, args).map(|o| format!("{:?}", o)),
		"chan_utils" => l::chan_utils::replay(name, args).map(|o| format!("{:?}", o)),
		"tx_builder" => l::tx_builder::replay(name, args).map(|o| format!("{:?}", o)),
		"router" => l::router::replay(name, args).map(|o| format!("{:?}", o)),
		"package" => l::package::replay(name, args).map(|o| format!("{:?}", o)),
		"invoice_ser" => i::ser::replay(name, args).map(|o| format!("{:?}", o)),
		"invoice_de" => i::de::replay(name, args).map(|o| format!("{:?}", o)),
		"invoice_lib" => i::lib::replay(name, args).map(|o| format!("{:?}", o)),
		_ => None,
	}
}

// xorshift64*: deterministic from the seed (VERIF_SEED)
struct Rng(u64);
impl Rng {
	fn next(&mut self) -> u64 {
		let mut x = self.0;
		x ^= x >> 12;
		x ^= x << 25;
		x ^= x >> 27;
		self.0 = x;
		x.wrapping_mul(0x2545F4914F6CDD1D)
	}
}
fn gen(r: &mut Rng, ty: &str) -> u128 {
	let bits: u32 = match ty {
		"bool" => 1,
		"u8" => 8,
		"u16" => 16,
		"u32" => 32,
		_ => 64,
	};
	let max: u128 = if bits == 64 { u64::MAX as u128 } else { (1u128 << bits) - 1 };
	let v = r.next();
	// boundary-biased: small values, values near powers of two / ten, near max, money-sized, or uniform
	let out: u128 = match r.next() % 8 {
		0 => (v % 4) as u128,
		1 => max - (v % 4) as u128,
		2 => {
			let p = 1u128 << (r.next() % bits as u64);
			(p + (v % 5) as u128).saturating_sub(2)
		},
		3 => {
			let mut p: u128 = 1;
			for _ in 0..(r.next() % 19) {
				p *= 10;
			}
			(p + (v % 5) as u128).saturating_sub(2)
		},
		4 => (v % 1_000_000) as u128,
		5 => (v % 21_000_000_0000_0000) as u128,
		6 => (v % 100_000_000_000) as u128,
		_ => v as u128,
	};
	out.min(max)
}

fn search(a: &[String]) {
	// verif-replay --search <module> <contract> <types,comma> <seed> <n>
	let (module, name) = (a[2].as_str(), a[3].as_str());
	let types: Vec<&str> = a[4].split(',').collect();
	let seed: u64 = a[5].parse().unwrap_or(0);
	let n: u64 = a[6].parse().unwrap_or(100000);
	let mut r = Rng(seed.wrapping_mul(0x9E3779B97F4A7C15) | 1);
	let (mut holds, mut vac) = (0u64, 0u64);
	for _ in 0..n {
		let args: Vec<u128> = types.iter().map(|t| gen(&mut r, t)).collect();
		let res = std::panic::catch_unwind(|| dispatch(module, name, &args));
		let verdict = match res {
			Ok(Some(s)) => s,
			Ok(None) => {
				eprintln!("unknown contract");
				std::process::exit(2);
			},
			Err(_) => "Violated(panic)".to_string(),
		};
		if verdict.starts_with("Violated") {
			println!("FOUND {} {}", verdict, args.iter().map(|v| v.to_string()).collect::<Vec<_>>().join(" "));
			return;
		} else if verdict == "Holds" {
			holds += 1;
		} else {
			vac += 1;
		}
	}
	println!("NONE holds={} vacuous={}", holds, vac);
}

fn main() {
	let a: Vec<String> = std::env::args().collect();
	if a.len() >= 7 && a[1] == "--search" {
		search(&a);
		return;
	}
	if a.len() < 3 {
		eprintln!("usage: verif-replay <module> <contract> <args...>");
		std::process::exit(2);
	}
	let args: Vec<u128> = a[3..].iter().map(|s| s.parse::<i128>().map(|v| v as u128).unwrap_or(0)).collect();
	let name = a[2].as_str();
	let out: Option<String> = dispatch(a[1].as_str(), name, &args);
	match out {
		Some(s) => println!("{}", s),
		None => {
			eprintln!("unknown contract {}::{}", a[1], name);
			std::process::exit(2);
		},
	}
}
