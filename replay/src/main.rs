// Native replay of a counterexample against the real crates (built with RUSTFLAGS="--cfg ldk_verif").
// usage: verif-replay <module> <contract> <arg>...      prints Holds | Violated | Vacuous
fn main() {
	let a: Vec<String> = std::env::args().collect();
	if a.len() < 3 {
		eprintln!("usage: verif-replay <module> <contract> <args...>");
		std::process::exit(2);
	}
	let args: Vec<u128> = a[3..].iter().map(|s| s.parse::<i128>().map(|v| v as u128).unwrap_or(0)).collect();
	let name = a[2].as_str();
	use lightning::verif_api as l;
	use lightning_invoice::verif_api as i;
	let out: Option<String> = match a[1].as_str() {
		"ser" => l::ser::replay(name, &args).map(|o| format!("{:?}", o)),
		"msgs" => l::msgs::replay(name, &args).map(|o| format!("{:?}", o)),
		"wire" => l::wire::replay(name, &args).map(|o| format!("{:?}", o)),
		"onion_utils" => l::onion_utils::replay(name, &args).map(|o| format!("{:?}", o)),
		"inbound_payment" => l::inbound_payment::replay(name, &args).map(|o| format!("{:?}", o)),
		"chan_utils" => l::chan_utils::replay(name, &args).map(|o| format!("{:?}", o)),
		"tx_builder" => l::tx_builder::replay(name, &args).map(|o| format!("{:?}", o)),
		"router" => l::router::replay(name, &args).map(|o| format!("{:?}", o)),
		"package" => l::package::replay(name, &args).map(|o| format!("{:?}", o)),
		"invoice_ser" => i::ser::replay(name, &args).map(|o| format!("{:?}", o)),
		"invoice_de" => i::de::replay(name, &args).map(|o| format!("{:?}", o)),
		"invoice_lib" => i::lib::replay(name, &args).map(|o| format!("{:?}", o)),
		_ => None,
	};
	match out {
		Some(s) => println!("{}", s),
		None => {
			eprintln!("unknown contract {}::{}", a[1], name);
			std::process::exit(2);
		},
	}
}
