#!/bin/sh
# Offline setup: nothing to build for the Verus route (python3 stdlib + verus on PATH).
# Warm the verus cache (first run is slow) and check tools are present.
set -e
cd /verif
mkdir -p .build evidence replays
command -v verus >/dev/null || { echo "verus not on PATH"; exit 1; }
python3 -c "import sys; sys.path.insert(0,'/verif'); import vf.driver"
printf 'use vstd::prelude::*;\nverus!{ proof fn t() ensures 1 + 1 == 2int {} }\nfn main(){}\n' > .build/warm.rs
(cd .build && verus warm.rs >/dev/null 2>&1) || true
echo setup ok
