#!/bin/sh
# Runs every claimed check once (quick tier by default) and prints a summary line per property.
tier=${1:-quick}
cd /verif
for p in C01 C02 C03 C04 C05 C06 C07 C08 C09 C10 C11 C12 C13 C14 C15 C16 C17 C18 C19 C20; do
  start=$(date +%s)
  ./check $p --tier $tier > .build/check_$p.log 2>&1
  rc=$?
  end=$(date +%s)
  echo "$p rc=$rc $((end-start))s $(tail -1 .build/check_$p.log | cut -c1-160)"
done
