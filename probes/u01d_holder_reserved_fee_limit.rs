// PROBE for unit U01c (hand-applied rewrites R1-R6 to tx_builder.rs functions; not the machinery)
use vstd::prelude::*;
verus! {
use vstd::std_specs::cmp::*;
pub assume_specification<T: core::cmp::Ord>[core::cmp::min::<T>](a: T, b: T) -> (r: T)
    ensures T::obeys_cmp_spec() ==> r == (if b.cmp_spec(&a) == core::cmp::Ordering::Less { b } else { a });
pub assume_specification<T: core::cmp::Ord>[core::cmp::max::<T>](a: T, b: T) -> (r: T)
    ensures T::obeys_cmp_spec() ==> r == (if b.cmp_spec(&a) == core::cmp::Ordering::Less { a } else { b });

// ---------------- env (trusted) ----------------
pub struct ChannelTypeFeatures { pub anchors: bool, pub zfc: bool }
impl ChannelTypeFeatures {
    #[verifier::external_body]
    pub fn supports_anchors_zero_fee_htlc_tx(&self) -> (r: bool) ensures r == self.anchors { self.anchors }
    #[verifier::external_body]
    pub fn supports_anchor_zero_fee_commitments(&self) -> (r: bool) ensures r == self.zfc { self.zfc }
}
pub const ANCHOR_OUTPUT_VALUE_SATOSHI: u64 = 330;
pub const COMMITMENT_TX_WEIGHT_PER_HTLC: u64 = 172;
pub const FEE_SPIKE_BUFFER_FEE_INCREASE_MULTIPLE: u64 = 2;

// ---------------- specs ----------------
pub open spec fn base_weight(ct: &ChannelTypeFeatures) -> int { if ct.anchors { 1124 } else { 724 } }
pub open spec fn commit_fee_spec(feerate: int, n: int, ct: &ChannelTypeFeatures) -> int {
    feerate * (base_weight(ct) + n * 172) / 1000
}
pub open spec fn success_w(ct: &ChannelTypeFeatures) -> int { if ct.anchors { 706 } else { 703 } }
pub open spec fn timeout_w(ct: &ChannelTypeFeatures) -> int { if ct.anchors { 666 } else { 663 } }
pub open spec fn second_stage_spec(ct: &ChannelTypeFeatures, feerate: int) -> (int, int) {
    if ct.anchors || ct.zfc { (0, 0) } else { (feerate * success_w(ct) / 1000, feerate * timeout_w(ct) / 1000) }
}
pub open spec fn anchors_spec(ct: &ChannelTypeFeatures) -> int { if ct.anchors { 660 } else { 0 } }

pub struct HTLCAmountDirection { pub outbound: bool, pub amount_msat: u64 }

pub open spec fn is_dust_spec(h: HTLCAmountDirection, local: bool, feerate: int, dust: int, ct: &ChannelTypeFeatures) -> bool {
    let (s, t) = second_stage_spec(ct, feerate);
    let f = if h.outbound == local { t } else { s };
    (h.amount_msat as int) / 1000 < dust + f
}

pub open spec fn sum_if(s: Seq<HTLCAmountDirection>, p: spec_fn(HTLCAmountDirection) -> bool) -> int
    decreases s.len()
{
    if s.len() == 0 { 0 } else { sum_if(s.drop_last(), p) + (if p(s.last()) { s.last().amount_msat as int } else { 0 }) }
}
pub open spec fn cnt_if(s: Seq<HTLCAmountDirection>, p: spec_fn(HTLCAmountDirection) -> bool) -> int
    decreases s.len()
{
    if s.len() == 0 { 0 } else { cnt_if(s.drop_last(), p) + (if p(s.last()) { 1int } else { 0 }) }
}
pub open spec fn total(s: Seq<HTLCAmountDirection>) -> int { sum_if(s, |h: HTLCAmountDirection| true) }

pub proof fn lemma_step(s: Seq<HTLCAmountDirection>, i: int, p: spec_fn(HTLCAmountDirection) -> bool)
    requires 0 <= i < s.len()
    ensures sum_if(s.take(i + 1), p) == sum_if(s.take(i), p) + (if p(s[i]) { s[i].amount_msat as int } else { 0 }),
            cnt_if(s.take(i + 1), p) == cnt_if(s.take(i), p) + (if p(s[i]) { 1int } else { 0 }),
{
    assert(s.take(i + 1).drop_last() =~= s.take(i));
}
pub proof fn lemma_bounds(s: Seq<HTLCAmountDirection>, p: spec_fn(HTLCAmountDirection) -> bool)
    ensures 0 <= sum_if(s, p) <= total(s), 0 <= cnt_if(s, p) <= s.len()
    decreases s.len()
{
    if s.len() > 0 { lemma_bounds(s.drop_last(), p); }
}
pub proof fn lemma_prefix_bounds(s: Seq<HTLCAmountDirection>, i: int, p: spec_fn(HTLCAmountDirection) -> bool)
    requires 0 <= i <= s.len()
    ensures 0 <= sum_if(s.take(i), p) <= total(s), 0 <= cnt_if(s.take(i), p) <= i
    decreases s.len() - i
{
    lemma_bounds(s.take(i), p);
    lemma_total_prefix(s, i);
}
pub proof fn lemma_total_prefix(s: Seq<HTLCAmountDirection>, i: int)
    requires 0 <= i <= s.len()
    ensures total(s.take(i)) <= total(s)
    decreases s.len() - i
{
    if i < s.len() { lemma_total_prefix(s, i + 1); lemma_step(s, i, |h: HTLCAmountDirection| true); }
    else { assert(s.take(i) =~= s); }
}
pub proof fn lemma_split(s: Seq<HTLCAmountDirection>)
    ensures sum_if(s, |h: HTLCAmountDirection| h.outbound) + sum_if(s, |h: HTLCAmountDirection| !h.outbound) == total(s)
    decreases s.len()
{
    if s.len() > 0 { lemma_split(s.drop_last()); }
}

// ---------------- chan_utils (verbatim) ----------------
pub fn htlc_success_tx_weight(channel_type_features: &ChannelTypeFeatures) -> (r: u64)
    ensures r == success_w(channel_type_features)
{
	const HTLC_SUCCESS_TX_WEIGHT: u64 = 703;
	const HTLC_SUCCESS_ANCHOR_TX_WEIGHT: u64 = 706;
	if channel_type_features.supports_anchors_zero_fee_htlc_tx() { HTLC_SUCCESS_ANCHOR_TX_WEIGHT } else { HTLC_SUCCESS_TX_WEIGHT }
}
pub fn htlc_timeout_tx_weight(channel_type_features: &ChannelTypeFeatures) -> (r: u64)
    ensures r == timeout_w(channel_type_features)
{
	const HTLC_TIMEOUT_TX_WEIGHT: u64 = 663;
	const HTLC_TIMEOUT_ANCHOR_TX_WEIGHT: u64 = 666;
	if channel_type_features.supports_anchors_zero_fee_htlc_tx() { HTLC_TIMEOUT_ANCHOR_TX_WEIGHT } else { HTLC_TIMEOUT_TX_WEIGHT }
}
pub fn commitment_tx_base_weight(channel_type_features: &ChannelTypeFeatures) -> (r: u64)
    ensures r == base_weight(channel_type_features)
{
	const COMMITMENT_TX_BASE_WEIGHT: u64 = 724;
	const COMMITMENT_TX_BASE_ANCHOR_WEIGHT: u64 = 1124;
	if channel_type_features.supports_anchors_zero_fee_htlc_tx() { COMMITMENT_TX_BASE_ANCHOR_WEIGHT } else { COMMITMENT_TX_BASE_WEIGHT }
}
pub fn commit_tx_fee_sat(feerate_per_kw: u32, num_htlcs: usize, channel_type_features: &ChannelTypeFeatures) -> (r: u64)
    requires num_htlcs <= 100_000,
    ensures r == commit_fee_spec(feerate_per_kw as int, num_htlcs as int, channel_type_features),
            r <= 0xffff_ffff * 17_300,
{
    proof {
        assert(feerate_per_kw as int * (base_weight(channel_type_features) + num_htlcs as int * 172) <= 0xffff_ffff * (1124 + 100_000 * 172)) by (nonlinear_arith)
            requires 0 <= feerate_per_kw <= 0xffff_ffff, 0 <= num_htlcs <= 100_000, 0 < base_weight(channel_type_features) <= 1124;
        assert(feerate_per_kw as int * (base_weight(channel_type_features) + num_htlcs as int * 172) >= 0) by (nonlinear_arith)
            requires 0 <= feerate_per_kw, 0 <= num_htlcs, 0 < base_weight(channel_type_features);
    }
	feerate_per_kw as u64 *
		(commitment_tx_base_weight(channel_type_features) +
			num_htlcs as u64 * COMMITMENT_TX_WEIGHT_PER_HTLC)
		/ 1000
}
pub fn second_stage_tx_fees_sat(
	channel_type: &ChannelTypeFeatures, feerate_sat_per_1000_weight: u32,
) -> (r: (u64, u64))
    ensures (r.0 as int, r.1 as int) == second_stage_spec(channel_type, feerate_sat_per_1000_weight as int),
            r.0 <= 0xffff_ffff, r.1 <= 0xffff_ffff,
{
	if channel_type.supports_anchors_zero_fee_htlc_tx()
		|| channel_type.supports_anchor_zero_fee_commitments()
	{
		(0, 0)
	} else {
        proof {
            assert(feerate_sat_per_1000_weight as int * 703 / 1000 <= 0xffff_ffff) by (nonlinear_arith) requires 0 <= feerate_sat_per_1000_weight <= 0xffff_ffff;
            assert(feerate_sat_per_1000_weight as int * 663 / 1000 <= 0xffff_ffff) by (nonlinear_arith) requires 0 <= feerate_sat_per_1000_weight <= 0xffff_ffff;
        }
		(
			feerate_sat_per_1000_weight as u64 * htlc_success_tx_weight(channel_type) / 1000,
			feerate_sat_per_1000_weight as u64 * htlc_timeout_tx_weight(channel_type) / 1000,
		)
	}
}


#[derive(Clone, Copy)]
pub struct ChannelConstraints {
	pub holder_dust_limit_satoshis: u64,
	pub counterparty_selected_channel_reserve_satoshis: u64,
	pub counterparty_dust_limit_satoshis: u64,
	pub holder_selected_channel_reserve_satoshis: u64,
	pub counterparty_htlc_minimum_msat: u64,
	pub counterparty_max_htlc_value_in_flight_msat: u64,
	pub counterparty_max_accepted_htlcs: u64,
}

// what one commitment (with n existing non-dust HTLCs and HTLC dust threshold d) lets the funder add: the spec of the closure
pub open spec fn avail_spec(cap: int, spiked: int, n: int, d: int, ct: &ChannelTypeFeatures) -> int {
    let maxf = commit_fee_spec(spiked, n + 2, ct) * 1000;
    let minf = commit_fee_spec(spiked, n + 1, ct) * 1000;
    let a = if cap >= maxf { cap - maxf } else { 0 };
    if a < d * 1000 { let b = if cap >= minf { cap - minf } else { 0 }; if d * 1000 - 1 <= b { d * 1000 - 1 } else { b } } else { a }
}
// (P) the fee check a sender must pass on one commitment for an outbound HTLC of `a` msat
pub open spec fn affordable(a: int, cap: int, spiked: int, n: int, d: int, ct: &ChannelTypeFeatures) -> bool {
    if a / 1000 >= d { a + commit_fee_spec(spiked, n + 2, ct) * 1000 <= cap } else { a + commit_fee_spec(spiked, n + 1, ct) * 1000 <= cap }
}
pub proof fn lemma_fee_mono(f: int, n1: int, n2: int, ct: &ChannelTypeFeatures)
    requires 0 <= f, 0 <= n1 <= n2
    ensures commit_fee_spec(f, n1, ct) <= commit_fee_spec(f, n2, ct), 0 <= commit_fee_spec(f, n1, ct)
{
    assert(f * (base_weight(ct) + n1 * 172) <= f * (base_weight(ct) + n2 * 172)) by (nonlinear_arith) requires 0 <= f, 0 <= n1 <= n2, base_weight(ct) > 0;
    assert(f * (base_weight(ct) + n1 * 172) >= 0) by (nonlinear_arith) requires 0 <= f, 0 <= n1, base_weight(ct) > 0;
}
pub proof fn lemma_avail_sound(a: int, cap: int, spiked: int, n: int, d: int, ct: &ChannelTypeFeatures)
    requires 1 <= a <= avail_spec(cap, spiked, n, d, ct), 0 <= spiked, 0 <= n, 1 <= d, 0 <= cap
    ensures affordable(a, cap, spiked, n, d, ct)
{
    lemma_fee_mono(spiked, n + 1, n + 2, ct);
}

fn adjust_capacity_for_holder_reserved_fee(
	outbound_capacity_msat: u64, local_nondust_htlc_count: usize, remote_nondust_htlc_count: usize,
	feerate_per_kw: u32, spiked_feerate: u32, channel_constraints: &ChannelConstraints,
	channel_type: &ChannelTypeFeatures,
) -> (r: u64)
    requires local_nondust_htlc_count <= 2000, remote_nondust_htlc_count <= 2000,
        1 <= channel_constraints.holder_dust_limit_satoshis <= 21_000_000_0000_0000, 1 <= channel_constraints.counterparty_dust_limit_satoshis <= 21_000_000_0000_0000,
    ensures
        r <= outbound_capacity_msat,
        // (P) every amount up to the reported limit passes the funder's fee check on BOTH commitments
        forall|a: int| 1 <= a <= r ==>
            #[trigger] affordable(a, outbound_capacity_msat as int, spiked_feerate as int, local_nondust_htlc_count as int, channel_constraints.holder_dust_limit_satoshis + second_stage_spec(channel_type, feerate_per_kw as int).1, channel_type)
            && affordable(a, outbound_capacity_msat as int, spiked_feerate as int, remote_nondust_htlc_count as int, channel_constraints.counterparty_dust_limit_satoshis + second_stage_spec(channel_type, feerate_per_kw as int).0, channel_type),
{
	let read_available_capacity = |nondust_htlc_count: usize, htlc_dust_limit_sat: u64| -> (o: u64)
        requires nondust_htlc_count <= 2000, 1 <= htlc_dust_limit_sat <= 21_000_000_0000_0000 + 0xffff_ffff
        ensures o as int == avail_spec(outbound_capacity_msat as int, spiked_feerate as int, nondust_htlc_count as int, htlc_dust_limit_sat as int, channel_type),
            o <= outbound_capacity_msat
    {
		let max_commit_tx_fee_sat =
			commit_tx_fee_sat(spiked_feerate, nondust_htlc_count + 2, channel_type);
		let min_commit_tx_fee_sat =
			commit_tx_fee_sat(spiked_feerate, nondust_htlc_count + 1, channel_type);
		let capacity_minus_max_commitment_fee_msat =
			outbound_capacity_msat.saturating_sub(max_commit_tx_fee_sat * 1000);
		if capacity_minus_max_commitment_fee_msat < htlc_dust_limit_sat * 1000 {
			let capacity_minus_min_commitment_fee_msat =
				outbound_capacity_msat.saturating_sub(min_commit_tx_fee_sat * 1000);
			core::cmp::min(htlc_dust_limit_sat * 1000 - 1, capacity_minus_min_commitment_fee_msat)
		} else {
			capacity_minus_max_commitment_fee_msat
		}
	};

	let (real_htlc_success_tx_fee_sat, real_htlc_timeout_tx_fee_sat) =
		second_stage_tx_fees_sat(channel_type, feerate_per_kw);
	let available_capacity_on_local_commitment = read_available_capacity(
		local_nondust_htlc_count,
		channel_constraints.holder_dust_limit_satoshis + real_htlc_timeout_tx_fee_sat,
	);
	let available_capacity_on_remote_commitment = read_available_capacity(
		remote_nondust_htlc_count,
		channel_constraints.counterparty_dust_limit_satoshis + real_htlc_success_tx_fee_sat,
	);
    proof {
        let cap = outbound_capacity_msat as int; let sp = spiked_feerate as int;
        let dl = (channel_constraints.holder_dust_limit_satoshis + real_htlc_timeout_tx_fee_sat) as int;
        let dr = (channel_constraints.counterparty_dust_limit_satoshis + real_htlc_success_tx_fee_sat) as int;
        assert forall|a: int| 1 <= a <= available_capacity_on_local_commitment && a <= available_capacity_on_remote_commitment implies
            #[trigger] affordable(a, cap, sp, local_nondust_htlc_count as int, dl, channel_type) && affordable(a, cap, sp, remote_nondust_htlc_count as int, dr, channel_type) by {
            lemma_avail_sound(a, cap, sp, local_nondust_htlc_count as int, dl, channel_type);
            lemma_avail_sound(a, cap, sp, remote_nondust_htlc_count as int, dr, channel_type);
        }
    }
	core::cmp::min(available_capacity_on_local_commitment, available_capacity_on_remote_commitment)
}
// (P) fundee case: the check the counterparty (funder) must pass on one commitment for our outbound HTLC of `a` msat
pub open spec fn cp_affordable(a: int, rbal: int, fr: int, n: int, d: int, hres: int, ct: &ChannelTypeFeatures) -> bool {
    a / 1000 >= d ==> rbal >= commit_fee_spec(fr, n + 1, ct) * 1000 + hres * 1000
}
fn adjust_capacity_for_counterparty_reserved_fee(
	outbound_capacity_msat: u64, remote_balance_before_fee_msat: u64,
	local_nondust_htlc_count: usize, remote_nondust_htlc_count: usize, feerate_per_kw: u32,
	channel_constraints: &ChannelConstraints, channel_type: &ChannelTypeFeatures,
) -> (r: u64)
    requires local_nondust_htlc_count <= 2000, remote_nondust_htlc_count <= 2000,
        1 <= channel_constraints.holder_dust_limit_satoshis <= 21_000_000_0000_0000, 1 <= channel_constraints.counterparty_dust_limit_satoshis <= 21_000_000_0000_0000,
        channel_constraints.holder_selected_channel_reserve_satoshis <= 21_000_000_0000_0000,
    ensures
        r <= outbound_capacity_msat,
        // (P) any non-dust amount up to the limit leaves the funder able to pay the fee for it above the reserve we require of them
        forall|a: int| 1 <= a <= r ==>
            #[trigger] cp_affordable(a, remote_balance_before_fee_msat as int, feerate_per_kw as int, local_nondust_htlc_count as int,
                channel_constraints.holder_dust_limit_satoshis + second_stage_spec(channel_type, feerate_per_kw as int).1, channel_constraints.holder_selected_channel_reserve_satoshis as int, channel_type)
            && cp_affordable(a, remote_balance_before_fee_msat as int, feerate_per_kw as int, remote_nondust_htlc_count as int,
                channel_constraints.counterparty_dust_limit_satoshis + second_stage_spec(channel_type, feerate_per_kw as int).0, channel_constraints.holder_selected_channel_reserve_satoshis as int, channel_type),
{
	let read_available_capacity = |nondust_htlc_count: usize, htlc_dust_limit_sat: u64| -> (o: u64)
        requires nondust_htlc_count <= 2000, 1 <= htlc_dust_limit_sat <= 21_000_000_0000_0000 + 0xffff_ffff
        ensures o <= outbound_capacity_msat,
            remote_balance_before_fee_msat < commit_fee_spec(feerate_per_kw as int, nondust_htlc_count + 1, channel_type) * 1000 + channel_constraints.holder_selected_channel_reserve_satoshis * 1000
                ==> o <= htlc_dust_limit_sat * 1000 - 1,
    {
		let commit_tx_fee_sat =
			commit_tx_fee_sat(feerate_per_kw, nondust_htlc_count + 1, channel_type);
		if remote_balance_before_fee_msat
			< commit_tx_fee_sat * 1000
				+ channel_constraints.holder_selected_channel_reserve_satoshis * 1000
		{
			core::cmp::min(outbound_capacity_msat, htlc_dust_limit_sat * 1000 - 1)
		} else {
			outbound_capacity_msat
		}
	};
	let (real_htlc_success_tx_fee_sat, real_htlc_timeout_tx_fee_sat) =
		second_stage_tx_fees_sat(channel_type, feerate_per_kw);
	let available_capacity_on_local_commitment = read_available_capacity(
		local_nondust_htlc_count,
		channel_constraints.holder_dust_limit_satoshis + real_htlc_timeout_tx_fee_sat,
	);
	let available_capacity_on_remote_commitment = read_available_capacity(
		remote_nondust_htlc_count,
		channel_constraints.counterparty_dust_limit_satoshis + real_htlc_success_tx_fee_sat,
	);
	core::cmp::min(available_capacity_on_local_commitment, available_capacity_on_remote_commitment)
}

}
fn main() {}
