use vstd::prelude::*;
verus! {
pub struct S { pub old_secrets: [([u8; 32], u64); 49] }
impl S {
	pub fn get_min_seen_secret(&self) -> (r: u64)
        ensures forall|k: int| 0 <= k < 49 ==> r <= self.old_secrets[k].1
    {
		let mut min = 1 << 48;
		for __x in it: self.old_secrets.iter()
            invariant forall|k: int| 0 <= k < it.index@ ==> min <= self.old_secrets[k].1,
        {
            let (_, idx) = *__x;
			if idx < min {
				min = idx;
			}
		}
		min
	}
}
}
fn main() {}
