// PROBE for unit U01c (hand-applied rewrites R1-R6 to tx_builder.rs functions; not the machinery)
use vstd::prelude::*;
verus! {
use vstd::std_specs::cmp::*;
pub assume_specification<T: core::cmp::Ord>[core::cmp::max::<T>](a: T, b: T) -> (r: T)
    ensures T::obeys_cmp_spec() ==> r == (if b.cmp_spec(&a) == core::cmp::Ordering::Less { a } else { b });

// ---------------- env (trusted) ----------------
pub struct ChannelTypeFeatures { pub anchors: bool, pub zfc: bool }
impl ChannelTypeFeatures {
    #[verifier::external_body]
    pub fn supports_anchors_zero_fee_htlc_tx(&self) -> (r: bool) ensures r == self.anchors { self.anchors }
    #[verifier::external_body]
    pub fn supports_anchor_zero_fee_commitments(&self) -> (r: bool) ensures r == self.zfc { self.zfc }
}
pub const ANCHOR_OUTPUT_VALUE_SATOSHI: u64 = 330;
pub const COMMITMENT_TX_WEIGHT_PER_HTLC: u64 = 172;
pub const FEE_SPIKE_BUFFER_FEE_INCREASE_MULTIPLE: u64 = 2;

// ---------------- specs ----------------
pub open spec fn base_weight(ct: &ChannelTypeFeatures) -> int { if ct.anchors { 1124 } else { 724 } }
pub open spec fn commit_fee_spec(feerate: int, n: int, ct: &ChannelTypeFeatures) -> int {
    feerate * (base_weight(ct) + n * 172) / 1000
}
pub open spec fn success_w(ct: &ChannelTypeFeatures) -> int { if ct.anchors { 706 } else { 703 } }
pub open spec fn timeout_w(ct: &ChannelTypeFeatures) -> int { if ct.anchors { 666 } else { 663 } }
pub open spec fn second_stage_spec(ct: &ChannelTypeFeatures, feerate: int) -> (int, int) {
    if ct.anchors || ct.zfc { (0, 0) } else { (feerate * success_w(ct) / 1000, feerate * timeout_w(ct) / 1000) }
}
pub open spec fn anchors_spec(ct: &ChannelTypeFeatures) -> int { if ct.anchors { 660 } else { 0 } }

pub struct HTLCAmountDirection { pub outbound: bool, pub amount_msat: u64 }

pub open spec fn is_dust_spec(h: HTLCAmountDirection, local: bool, feerate: int, dust: int, ct: &ChannelTypeFeatures) -> bool {
    let (s, t) = second_stage_spec(ct, feerate);
    let f = if h.outbound == local { t } else { s };
    (h.amount_msat as int) / 1000 < dust + f
}

pub open spec fn sum_if(s: Seq<HTLCAmountDirection>, p: spec_fn(HTLCAmountDirection) -> bool) -> int
    decreases s.len()
{
    if s.len() == 0 { 0 } else { sum_if(s.drop_last(), p) + (if p(s.last()) { s.last().amount_msat as int } else { 0 }) }
}
pub open spec fn cnt_if(s: Seq<HTLCAmountDirection>, p: spec_fn(HTLCAmountDirection) -> bool) -> int
    decreases s.len()
{
    if s.len() == 0 { 0 } else { cnt_if(s.drop_last(), p) + (if p(s.last()) { 1int } else { 0 }) }
}
pub open spec fn total(s: Seq<HTLCAmountDirection>) -> int { sum_if(s, |h: HTLCAmountDirection| true) }

pub proof fn lemma_step(s: Seq<HTLCAmountDirection>, i: int, p: spec_fn(HTLCAmountDirection) -> bool)
    requires 0 <= i < s.len()
    ensures sum_if(s.take(i + 1), p) == sum_if(s.take(i), p) + (if p(s[i]) { s[i].amount_msat as int } else { 0 }),
            cnt_if(s.take(i + 1), p) == cnt_if(s.take(i), p) + (if p(s[i]) { 1int } else { 0 }),
{
    assert(s.take(i + 1).drop_last() =~= s.take(i));
}
pub proof fn lemma_bounds(s: Seq<HTLCAmountDirection>, p: spec_fn(HTLCAmountDirection) -> bool)
    ensures 0 <= sum_if(s, p) <= total(s), 0 <= cnt_if(s, p) <= s.len()
    decreases s.len()
{
    if s.len() > 0 { lemma_bounds(s.drop_last(), p); }
}
pub proof fn lemma_prefix_bounds(s: Seq<HTLCAmountDirection>, i: int, p: spec_fn(HTLCAmountDirection) -> bool)
    requires 0 <= i <= s.len()
    ensures 0 <= sum_if(s.take(i), p) <= total(s), 0 <= cnt_if(s.take(i), p) <= i
    decreases s.len() - i
{
    lemma_bounds(s.take(i), p);
    lemma_total_prefix(s, i);
}
pub proof fn lemma_total_prefix(s: Seq<HTLCAmountDirection>, i: int)
    requires 0 <= i <= s.len()
    ensures total(s.take(i)) <= total(s)
    decreases s.len() - i
{
    if i < s.len() { lemma_total_prefix(s, i + 1); lemma_step(s, i, |h: HTLCAmountDirection| true); }
    else { assert(s.take(i) =~= s); }
}
pub proof fn lemma_split(s: Seq<HTLCAmountDirection>)
    ensures sum_if(s, |h: HTLCAmountDirection| h.outbound) + sum_if(s, |h: HTLCAmountDirection| !h.outbound) == total(s)
    decreases s.len()
{
    if s.len() > 0 { lemma_split(s.drop_last()); }
}

// ---------------- chan_utils (verbatim) ----------------
pub fn htlc_success_tx_weight(channel_type_features: &ChannelTypeFeatures) -> (r: u64)
    ensures r == success_w(channel_type_features)
{
	const HTLC_SUCCESS_TX_WEIGHT: u64 = 703;
	const HTLC_SUCCESS_ANCHOR_TX_WEIGHT: u64 = 706;
	if channel_type_features.supports_anchors_zero_fee_htlc_tx() { HTLC_SUCCESS_ANCHOR_TX_WEIGHT } else { HTLC_SUCCESS_TX_WEIGHT }
}
pub fn htlc_timeout_tx_weight(channel_type_features: &ChannelTypeFeatures) -> (r: u64)
    ensures r == timeout_w(channel_type_features)
{
	const HTLC_TIMEOUT_TX_WEIGHT: u64 = 663;
	const HTLC_TIMEOUT_ANCHOR_TX_WEIGHT: u64 = 666;
	if channel_type_features.supports_anchors_zero_fee_htlc_tx() { HTLC_TIMEOUT_ANCHOR_TX_WEIGHT } else { HTLC_TIMEOUT_TX_WEIGHT }
}
pub fn commitment_tx_base_weight(channel_type_features: &ChannelTypeFeatures) -> (r: u64)
    ensures r == base_weight(channel_type_features)
{
	const COMMITMENT_TX_BASE_WEIGHT: u64 = 724;
	const COMMITMENT_TX_BASE_ANCHOR_WEIGHT: u64 = 1124;
	if channel_type_features.supports_anchors_zero_fee_htlc_tx() { COMMITMENT_TX_BASE_ANCHOR_WEIGHT } else { COMMITMENT_TX_BASE_WEIGHT }
}
pub fn commit_tx_fee_sat(feerate_per_kw: u32, num_htlcs: usize, channel_type_features: &ChannelTypeFeatures) -> (r: u64)
    requires num_htlcs <= 100_000,
    ensures r == commit_fee_spec(feerate_per_kw as int, num_htlcs as int, channel_type_features),
            r <= 0xffff_ffff * 17_300,
{
    proof {
        assert(feerate_per_kw as int * (base_weight(channel_type_features) + num_htlcs as int * 172) <= 0xffff_ffff * (1124 + 100_000 * 172)) by (nonlinear_arith)
            requires 0 <= feerate_per_kw <= 0xffff_ffff, 0 <= num_htlcs <= 100_000, 0 < base_weight(channel_type_features) <= 1124;
        assert(feerate_per_kw as int * (base_weight(channel_type_features) + num_htlcs as int * 172) >= 0) by (nonlinear_arith)
            requires 0 <= feerate_per_kw, 0 <= num_htlcs, 0 < base_weight(channel_type_features);
    }
	feerate_per_kw as u64 *
		(commitment_tx_base_weight(channel_type_features) +
			num_htlcs as u64 * COMMITMENT_TX_WEIGHT_PER_HTLC)
		/ 1000
}
pub fn second_stage_tx_fees_sat(
	channel_type: &ChannelTypeFeatures, feerate_sat_per_1000_weight: u32,
) -> (r: (u64, u64))
    ensures (r.0 as int, r.1 as int) == second_stage_spec(channel_type, feerate_sat_per_1000_weight as int),
            r.0 <= 0xffff_ffff, r.1 <= 0xffff_ffff,
{
	if channel_type.supports_anchors_zero_fee_htlc_tx()
		|| channel_type.supports_anchor_zero_fee_commitments()
	{
		(0, 0)
	} else {
        proof {
            assert(feerate_sat_per_1000_weight as int * 703 / 1000 <= 0xffff_ffff) by (nonlinear_arith) requires 0 <= feerate_sat_per_1000_weight <= 0xffff_ffff;
            assert(feerate_sat_per_1000_weight as int * 663 / 1000 <= 0xffff_ffff) by (nonlinear_arith) requires 0 <= feerate_sat_per_1000_weight <= 0xffff_ffff;
        }
		(
			feerate_sat_per_1000_weight as u64 * htlc_success_tx_weight(channel_type) / 1000,
			feerate_sat_per_1000_weight as u64 * htlc_timeout_tx_weight(channel_type) / 1000,
		)
	}
}

// ---------------- tx_builder (verbatim modulo R6) ----------------
impl HTLCAmountDirection {
	fn is_dust(
		&self, local: bool, feerate_per_kw: u32, broadcaster_dust_limit_satoshis: u64,
		channel_type: &ChannelTypeFeatures,
	) -> (r: bool)
        requires broadcaster_dust_limit_satoshis <= 21_000_000_0000_0000,
        ensures r == is_dust_spec(*self, local, feerate_per_kw as int, broadcaster_dust_limit_satoshis as int, channel_type)
    {
		let (success_tx_fee_sat, timeout_tx_fee_sat) =
			second_stage_tx_fees_sat(channel_type, feerate_per_kw);
		let htlc_tx_fee_sat =
			if self.outbound == local { timeout_tx_fee_sat } else { success_tx_fee_sat };
		self.amount_msat / 1000 < broadcaster_dust_limit_satoshis + htlc_tx_fee_sat
	}
}

fn total_anchors_sat(channel_type: &ChannelTypeFeatures) -> (r: u64)
    ensures r == anchors_spec(channel_type)
{
	if channel_type.supports_anchors_zero_fee_htlc_tx() {
		ANCHOR_OUTPUT_VALUE_SATOSHI * 2
	} else {
		0
	}
}

fn checked_sub_from_funder(
	is_outbound_from_holder: bool, value_to_holder: u64, value_to_counterparty: u64,
	value_to_subtract: u64,
) -> (r: Result<(u64, u64), ()>)
    ensures
        r is Ok <==> (if is_outbound_from_holder { value_to_holder >= value_to_subtract } else { value_to_counterparty >= value_to_subtract }),
        r is Ok ==> (if is_outbound_from_holder {
                r->Ok_0.0 == value_to_holder - value_to_subtract && r->Ok_0.1 == value_to_counterparty
            } else {
                r->Ok_0.0 == value_to_holder && r->Ok_0.1 == value_to_counterparty - value_to_subtract }),
{
	if is_outbound_from_holder {
		Ok((value_to_holder.checked_sub(value_to_subtract).ok_or(())?, value_to_counterparty))
	} else {
		Ok((value_to_holder, value_to_counterparty.checked_sub(value_to_subtract).ok_or(())?))
	}
}

fn saturating_sub_from_funder(
	is_outbound_from_holder: bool, value_to_holder: u64, value_to_counterparty: u64,
	value_to_subtract: u64,
) -> (r: (u64, u64))
    ensures r == (if is_outbound_from_holder {
        ((if value_to_holder >= value_to_subtract { (value_to_holder - value_to_subtract) as u64 } else { 0u64 }), value_to_counterparty)
      } else {
        (value_to_holder, (if value_to_counterparty >= value_to_subtract { (value_to_counterparty - value_to_subtract) as u64 } else { 0u64 })) })
{
	if is_outbound_from_holder {
		(value_to_holder.saturating_sub(value_to_subtract), value_to_counterparty)
	} else {
		(value_to_holder, value_to_counterparty.saturating_sub(value_to_subtract))
	}
}

pub open spec fn has_output_spec(ob: bool, h: int, c: int, feerate: int, n: int, dust: int, ct: &ChannelTypeFeatures) -> bool {
    let fee = commit_fee_spec(feerate, n, ct) * 1000;
    let h2 = if ob { if h >= fee { h - fee } else { 0 } } else { h };
    let c2 = if ob { c } else { if c >= fee { c - fee } else { 0 } };
    !(h2 < dust * 1000 && c2 < dust * 1000 && n == 0 && !ct.zfc)
}

fn has_output(
	is_outbound_from_holder: bool, holder_balance_before_fee_msat: u64,
	counterparty_balance_before_fee_msat: u64, feerate_per_kw: u32, nondust_htlc_count: usize,
	broadcaster_dust_limit_satoshis: u64, channel_type: &ChannelTypeFeatures,
) -> (r: bool)
    requires nondust_htlc_count <= 100_000, broadcaster_dust_limit_satoshis <= 21_000_000_0000_0000,
    ensures r == has_output_spec(is_outbound_from_holder, holder_balance_before_fee_msat as int, counterparty_balance_before_fee_msat as int,
        feerate_per_kw as int, nondust_htlc_count as int, broadcaster_dust_limit_satoshis as int, channel_type)
{
	let commit_tx_fee_sat = commit_tx_fee_sat(feerate_per_kw, nondust_htlc_count, channel_type);
	let (holder_balance_msat, counterparty_balance_msat) = saturating_sub_from_funder(
		is_outbound_from_holder,
		holder_balance_before_fee_msat,
		counterparty_balance_before_fee_msat,
		commit_tx_fee_sat.saturating_mul(1000),
	);

	// Make sure the commitment transaction has at least one output
	let dust_limit_msat = broadcaster_dust_limit_satoshis * 1000;
	let has_no_output = holder_balance_msat < dust_limit_msat
		&& counterparty_balance_msat < dust_limit_msat
		&& nondust_htlc_count == 0
		// 0FC channels always have a P2A output on the commitment transaction
		&& !channel_type.supports_anchor_zero_fee_commitments();
	!has_no_output
}


// ---------------- PROBE: SpecTxBuilder::build_commitment_transaction (R3 logs, R5 stubs, R6e retain -> loop, R9 closure spec) ----------------
pub struct PublicKey {}
pub struct Secp256k1 {}
pub struct Logger {}
#[derive(Clone, Copy)] pub struct PaymentHash(pub [u8; 32]);
pub struct HTLCOutputInCommitment { pub offered: bool, pub amount_msat: u64, pub cltv_expiry: u32, pub payment_hash: PaymentHash, pub transaction_output_index: Option<u32> }
pub struct ChannelTransactionParameters { pub channel_type_features: ChannelTypeFeatures, pub channel_value_satoshis: u64, pub is_outbound_from_holder: bool }
pub struct DirectedChannelTransactionParameters {}
impl ChannelTransactionParameters {
    #[verifier::external_body] pub fn as_holder_broadcastable(&self) -> DirectedChannelTransactionParameters { unimplemented!() }
    #[verifier::external_body] pub fn as_counterparty_broadcastable(&self) -> DirectedChannelTransactionParameters { unimplemented!() }
}
pub struct CommitmentTransaction { pub to_broadcaster_value_sat: u64, pub to_countersignatory_value_sat: u64, pub feerate_per_kw: u32, pub nondust_htlcs: Vec<HTLCOutputInCommitment> }
impl CommitmentTransaction {
    // assumed: the constructor records what it is given (sorting of HTLCs = permutation, abstracted as equality of the multiset sum)
    #[verifier::external_body]
	pub fn new(commitment_number: u64, per_commitment_point: &PublicKey, to_broadcaster_value_sat: u64, to_countersignatory_value_sat: u64, feerate_per_kw: u32, nondust_htlcs: Vec<HTLCOutputInCommitment>, channel_parameters: &DirectedChannelTransactionParameters, secp_ctx: &Secp256k1) -> (r: CommitmentTransaction)
        ensures r.to_broadcaster_value_sat == to_broadcaster_value_sat, r.to_countersignatory_value_sat == to_countersignatory_value_sat,
            r.feerate_per_kw == feerate_per_kw, sat_sum(r.nondust_htlcs@) == sat_sum(nondust_htlcs@), r.nondust_htlcs@.len() == nondust_htlcs@.len()
    { unimplemented!() }
}
pub struct CommitmentStats { pub commit_tx_fee_sat: u64, pub local_balance_before_fee_msat: u64, pub remote_balance_before_fee_msat: u64 }
pub struct SpecTxBuilder {}

pub open spec fn msat_sum(s: Seq<HTLCOutputInCommitment>) -> int decreases s.len() { if s.len() == 0 { 0 } else { msat_sum(s.drop_last()) + s.last().amount_msat as int } }
pub open spec fn sat_sum(s: Seq<HTLCOutputInCommitment>) -> int decreases s.len() { if s.len() == 0 { 0 } else { sat_sum(s.drop_last()) + s.last().amount_msat as int / 1000 } }
pub proof fn lemma_sat_le_msat(s: Seq<HTLCOutputInCommitment>) ensures 0 <= sat_sum(s) * 1000 <= msat_sum(s) decreases s.len()
{ if s.len() > 0 { lemma_sat_le_msat(s.drop_last()); } }

impl SpecTxBuilder {
	fn build_commitment_transaction(
		&self, local: bool, commitment_number: u64, per_commitment_point: &PublicKey,
		channel_parameters: &ChannelTransactionParameters, secp_ctx: &Secp256k1,
		value_to_self_msat: u64, mut htlcs_in_tx: Vec<HTLCOutputInCommitment>, feerate_per_kw: u32,
		broadcaster_dust_limit_satoshis: u64, logger: &Logger,
	) -> (r: (CommitmentTransaction, CommitmentStats))
        requires
            channel_parameters.channel_value_satoshis <= 21_000_000_0000_0000, broadcaster_dust_limit_satoshis <= 21_000_000_0000_0000,
            htlcs_in_tx@.len() <= 2000,
            // every party covers its own HTLCs (established by get_next_commitment_stats == Ok before a commitment is built)
            value_to_self_msat <= channel_parameters.channel_value_satoshis * 1000,
            msat_sum(htlcs_in_tx@) <= channel_parameters.channel_value_satoshis * 1000,
            own_side_covered(htlcs_in_tx@, local, value_to_self_msat as int, channel_parameters.channel_value_satoshis as int * 1000),
            // the funder can pay for the anchors (get_next_commitment_stats returned Ok for this commitment)
            channel_parameters.is_outbound_from_holder ==> value_to_self_msat - dir_sum(htlcs_in_tx@, local) >= 1000 * anchors_spec(&channel_parameters.channel_type_features),
            !channel_parameters.is_outbound_from_holder ==> channel_parameters.channel_value_satoshis * 1000 - value_to_self_msat - dir_sum(htlcs_in_tx@, !local) >= 1000 * anchors_spec(&channel_parameters.channel_type_features),
        ensures ({
            let tx = r.0;
            let cv = channel_parameters.channel_value_satoshis as int;
            let outputs = tx.to_broadcaster_value_sat + tx.to_countersignatory_value_sat + sat_sum(tx.nondust_htlcs@) + anchors_spec(&channel_parameters.channel_type_features);
            // (P) the commitment never pays out more than the funding output holds (no money is created) ...
            &&& outputs <= cv
            // ... and what is not paid out is the fee, which covers the nominal commitment fee whenever the funder can afford it
            &&& r.1.commit_tx_fee_sat == commit_fee_spec(feerate_per_kw as int, tx.nondust_htlcs@.len() as int, &channel_parameters.channel_type_features)
        }),
    {
		let mut local_htlc_total_msat = 0;
		let mut remote_htlc_total_msat = 0;
		let channel_type = &channel_parameters.channel_type_features;

		let is_dust = |offered: bool, amount_msat: u64| -> (o: bool)
            requires true
            ensures true
        {
            proof { assert(feerate_per_kw as int * 706 <= 0xffff_ffff * 706) by (nonlinear_arith) requires 0 <= feerate_per_kw <= 0xffff_ffff; }
			let htlc_tx_fee_sat = if channel_type.supports_anchors_zero_fee_htlc_tx() {
				0
			} else {
				let htlc_tx_weight = if offered {
					htlc_timeout_tx_weight(channel_type)
				} else {
					htlc_success_tx_weight(channel_type)
				};
				// As required by the spec, round down
				feerate_per_kw as u64 * htlc_tx_weight / 1000
			};
			amount_msat / 1000 < broadcaster_dust_limit_satoshis + htlc_tx_fee_sat
		};

		// Trim dust htlcs   -- R6e: `htlcs_in_tx.retain(|htlc| BODY)` as an index loop, BODY verbatim (log_trace! dropped)
        let ghost orig = htlcs_in_tx@;
        {
            let mut __i: usize = 0;
            while __i < htlcs_in_tx.len()
                invariant
                    __i <= htlcs_in_tx@.len() <= orig.len(), orig.len() <= 2000,
                    // unprocessed tail is a suffix of the original vector
                    htlcs_in_tx@.skip(__i as int) == orig.skip(orig.len() - (htlcs_in_tx@.len() - __i)),
                    ({ let k = orig.len() - (htlcs_in_tx@.len() - __i);
                       &&& local_htlc_total_msat == dir_sum(orig.take(k), local)
                       &&& remote_htlc_total_msat == dir_sum(orig.take(k), !local)
                       &&& msat_sum(htlcs_in_tx@.take(__i as int)) <= msat_sum(orig.take(k)) }),
                    msat_sum(orig) <= channel_parameters.channel_value_satoshis * 1000, channel_parameters.channel_value_satoshis <= 21_000_000_0000_0000,
                    forall|o: bool, a: u64| is_dust.requires((o, a)),
                decreases htlcs_in_tx@.len() - __i
            {
                let ghost k = orig.len() - (htlcs_in_tx@.len() - __i);
                let ghost cur = htlcs_in_tx@;
                proof {
                    assert(cur[__i as int] == cur.skip(__i as int)[0]);
                    assert(orig[k] == orig.skip(k)[0]);
                    lemma_sums_step(orig, k, local);
                    lemma_msat_prefix(orig, k + 1);
                    lemma_dir_split(orig.take(k + 1), local);
                    lemma_msat_step(cur, __i as int);
                }
                let __keep = { let htlc = &htlcs_in_tx[__i];
			if htlc.offered == local {
				// This is an outbound htlc
				local_htlc_total_msat += htlc.amount_msat;
			} else {
				remote_htlc_total_msat += htlc.amount_msat;
			}
			if is_dust(htlc.offered, htlc.amount_msat) {
				false
			} else {
				true
			}
                };
                proof { assert(cur.skip(__i as int).skip(1) =~= cur.skip(__i as int + 1)); assert(orig.skip(k).skip(1) =~= orig.skip(k + 1)); }
                if __keep { __i = __i + 1;
                } else { htlcs_in_tx.remove(__i);
                    proof { assert(htlcs_in_tx@ =~= cur.remove(__i as int)); assert(htlcs_in_tx@.skip(__i as int) =~= cur.skip(__i as int + 1)); assert(htlcs_in_tx@.take(__i as int) =~= cur.take(__i as int)); }
                }
            }
        }
        proof {
            assert(orig.take(orig.len() as int) =~= orig);
            assert(htlcs_in_tx@.take(htlcs_in_tx@.len() as int) =~= htlcs_in_tx@);
            lemma_dir_split(orig, local);
            lemma_sat_le_msat(htlcs_in_tx@);
        }

		let commit_tx_fee_sat = commit_tx_fee_sat(
			feerate_per_kw,
			htlcs_in_tx.len(),
			&channel_parameters.channel_type_features,
		);
		let value_to_self_after_htlcs_msat =
			value_to_self_msat.checked_sub(local_htlc_total_msat).unwrap();
		let value_to_remote_after_htlcs_msat = (channel_parameters.channel_value_satoshis * 1000)
			.checked_sub(value_to_self_msat)
			.unwrap()
			.checked_sub(remote_htlc_total_msat)
			.unwrap();

		let total_anchors_sat = total_anchors_sat(&channel_parameters.channel_type_features);
		let (local_balance_before_fee_msat, remote_balance_before_fee_msat) =
			saturating_sub_from_funder(
				channel_parameters.is_outbound_from_holder,
				value_to_self_after_htlcs_msat,
				value_to_remote_after_htlcs_msat,
				total_anchors_sat.saturating_mul(1000),
			);

		let (value_to_self, value_to_remote) = saturating_sub_from_funder(
			channel_parameters.is_outbound_from_holder,
			local_balance_before_fee_msat / 1000,
			remote_balance_before_fee_msat / 1000,
			commit_tx_fee_sat,
		);

        proof {
            let hb = local_balance_before_fee_msat as int; let cb = remote_balance_before_fee_msat as int;
            assert(hb + cb == channel_parameters.channel_value_satoshis * 1000 - msat_sum(orig) - 1000 * anchors_spec(&channel_parameters.channel_type_features));
            assert(hb / 1000 + cb / 1000 <= (hb + cb) / 1000);
            assert(value_to_self + value_to_remote <= hb / 1000 + cb / 1000);
            assert(sat_sum(htlcs_in_tx@) * 1000 <= msat_sum(orig));
        }
		let mut to_broadcaster_value_sat = if local { value_to_self } else { value_to_remote };
		let mut to_countersignatory_value_sat = if local { value_to_remote } else { value_to_self };

		if to_broadcaster_value_sat >= broadcaster_dust_limit_satoshis {
		} else {
			to_broadcaster_value_sat = 0;
		}

		if to_countersignatory_value_sat >= broadcaster_dust_limit_satoshis {
		} else {
			to_countersignatory_value_sat = 0;
		}

		let directed_parameters = if local {
			channel_parameters.as_holder_broadcastable()
		} else {
			channel_parameters.as_counterparty_broadcastable()
		};
		let tx = CommitmentTransaction::new(
			commitment_number,
			per_commitment_point,
			to_broadcaster_value_sat,
			to_countersignatory_value_sat,
			feerate_per_kw,
			htlcs_in_tx,
			&directed_parameters,
			secp_ctx,
		);

		(
			tx,
			CommitmentStats {
				commit_tx_fee_sat,
				local_balance_before_fee_msat,
				remote_balance_before_fee_msat,
			},
		)
    }
}
pub open spec fn dir_sum(s: Seq<HTLCOutputInCommitment>, offered: bool) -> int decreases s.len() {
    if s.len() == 0 { 0 } else { dir_sum(s.drop_last(), offered) + (if s.last().offered == offered { s.last().amount_msat as int } else { 0 }) }
}
pub proof fn lemma_sums_step(s: Seq<HTLCOutputInCommitment>, i: int, d: bool)
    requires 0 <= i < s.len()
    ensures dir_sum(s.take(i + 1), d) == dir_sum(s.take(i), d) + (if s[i].offered == d { s[i].amount_msat as int } else { 0 }),
            dir_sum(s.take(i + 1), !d) == dir_sum(s.take(i), !d) + (if s[i].offered == !d { s[i].amount_msat as int } else { 0 }),
            msat_sum(s.take(i + 1)) == msat_sum(s.take(i)) + s[i].amount_msat
{ assert(s.take(i + 1).drop_last() =~= s.take(i)); }
pub proof fn lemma_msat_step(s: Seq<HTLCOutputInCommitment>, i: int)
    requires 0 <= i < s.len()
    ensures msat_sum(s.take(i + 1)) == msat_sum(s.take(i)) + s[i].amount_msat
{ assert(s.take(i + 1).drop_last() =~= s.take(i)); }
pub proof fn lemma_msat_prefix(s: Seq<HTLCOutputInCommitment>, i: int)
    requires 0 <= i <= s.len()
    ensures 0 <= msat_sum(s.take(i)) <= msat_sum(s)
    decreases s.len() - i
{
    if i < s.len() { lemma_msat_prefix(s, i + 1); lemma_msat_step(s, i); lemma_msat_nonneg(s.take(i)); } else { assert(s.take(i) =~= s); lemma_msat_nonneg(s); }
}
pub proof fn lemma_msat_nonneg(s: Seq<HTLCOutputInCommitment>) ensures msat_sum(s) >= 0 decreases s.len() { if s.len() > 0 { lemma_msat_nonneg(s.drop_last()); } }
pub proof fn lemma_dir_split(s: Seq<HTLCOutputInCommitment>, d: bool)
    ensures dir_sum(s, d) + dir_sum(s, !d) == msat_sum(s), dir_sum(s, d) >= 0, dir_sum(s, !d) >= 0
    decreases s.len()
{ if s.len() > 0 { lemma_dir_split(s.drop_last(), d); } }
pub open spec fn own_side_covered(s: Seq<HTLCOutputInCommitment>, local: bool, vts: int, cv_msat: int) -> bool { dir_sum(s, local) <= vts && dir_sum(s, !local) <= cv_msat - vts }

}
fn main() {}
