probe = open('/verif/probes/u03_pending_outbound_payment.rs').read()
def between(a, b):
    i = probe.index(a); j = probe.index(b, i); return probe[i:j]
env = between('// ---- env (trusted): [u8;32]', '#[allow(inconsistent_fields)]')
env = env.replace('#[verifier::external_body] pub struct StringT {}\n', '')
views = between('    // ---- abstract view ----', '	pub fn is_fulfilled(&self)')
spec_pending = between('    pub open spec fn spec_pending_amt', '	fn remove(')
F='lightning/src/ln/outbound_payment.rs'
def blk(name, body):
    return '//@extract %s :: impl PendingOutboundPayment :: fn %s\n%s//@end\n' % (F, name, body)
T = '''//! unit: u03
//! properties: C03
//! note: PendingOutboundPayment state machine on the real 8-variant enum: terminal states are never contradicted, nothing is lost in a transition, completion tracking is exact
//! trusted: axiom_u8_32_key_model: [u8;32] hashes and compares lawfully (vstd obeys_key_model); new_hash_set() is an external_body wrapper for LDK's hash_tables::new_hash_set (returns an empty set); foreign payload types (StaleExpiration, Retry, RouteParametersConfig, RetryableInvoiceRequest, RouteParameters, InvoiceRequest, StaticInvoice, PaymentAttempts, PaymentParameters, PaidBolt12Invoice, Duration) are opaque external_body structs; Path is a stub {v, f} whose final_value_msat()/fee_msat() are external_body pure accessors
//! trusted: rule R7 splits or-pattern match arms into one arm per alternative
//! assume: callers keep the representation invariant pending_amt_msat >= value of every in-flight path (and pending_fee_msat >= its fee); remove()/insert() are not called on pre-HTLC states (LDK's debug_assert!(false) arms)
use vstd::prelude::*;
use std::collections::HashSet;
verus! {

''' + env + '''
//@extract ''' + F + ''' :: enum PendingOutboundPayment
//@end

impl PendingOutboundPayment {
''' + views + blk('is_fulfilled', '''//@ret r
//@ensures A
    r == (self is Fulfilled)
''') + blk('abandoned', '''//@ret r
//@ensures A
    r == (self is Abandoned)
''') + blk('get_pending_fee_msat', '''//@ret r
//@ensures A
    r == self.spec_fee()
''') + blk('total_msat', '''//@ret r
//@ensures A
    r == self.spec_total()
''') + blk('payment_hash', '''//@ret r
//@ensures A
    r == self.spec_hash()
''') + blk('mark_fulfilled', '''//@r7
//@requires
    old(self).has_htlcs_state()
//@ensures P C03 fulfilment-loses-no-in-flight-part-and-carries-hash-total-fee
    (*final(self)) is Fulfilled,
    final(self).privs() == old(self).privs(),                 // no in-flight part forgotten
    final(self).spec_hash() == old(self).spec_hash(),
    final(self).spec_total() == old(self).spec_total(),
    final(self).spec_fee() == old(self).spec_fee(),
//@mutant fee_dropped_on_fulfil
    let fee_paid_msat = self.get_pending_fee_msat();
//@with
    let fee_paid_msat = None;
''') + blk('mark_abandoned', '''//@r7
//@ensures P C03 terminal-outcome-never-contradicted
    (*old(self)) is Fulfilled ==> *final(self) == *old(self),
    (*old(self)) is Abandoned ==> *final(self) == *old(self),
    (*old(self)) is Retryable ==> (*final(self)) is Abandoned
        && final(self).privs() == old(self).privs()
        && final(self).spec_hash() == old(self).spec_hash()
        && final(self).spec_total() == old(self).spec_total()
        && final(self).spec_fee() == old(self).spec_fee(),
    (*final(self)) is Fulfilled <==> (*old(self)) is Fulfilled,
//@mutant abandon_a_fulfilled_payment
    Self::Retryable { payment_hash, .. } |
//@with
    Self::Fulfilled { payment_hash: Some(payment_hash), .. } | Self::Retryable { payment_hash, .. } |
''') + '}\nimpl PendingOutboundPayment {\n' + spec_pending + blk('remove', '''//@r7
//@ret r
//@requires
    old(self).has_htlcs_state(),
    (*old(self)) is Retryable && old(self).privs().contains(*session_priv) ==> path is Some
        && old(self)->Retryable_pending_amt_msat >= path->Some_0.v
        && (old(self)->Retryable_pending_fee_msat is Some ==> old(self)->Retryable_pending_fee_msat->Some_0 >= path->Some_0.f),
//@ensures P C03 completion-tracking-removes-exactly-that-part-and-its-value
    r == old(self).privs().contains(*session_priv),
    final(self).privs() == old(self).privs().remove(*session_priv),
    // the variant never changes here
    (*final(self)) is Fulfilled <==> (*old(self)) is Fulfilled,
    (*final(self)) is Abandoned <==> (*old(self)) is Abandoned,
    (*final(self)) is Retryable <==> (*old(self)) is Retryable,
    (*final(self)) is Legacy <==> (*old(self)) is Legacy,
    final(self).spec_hash() == old(self).spec_hash(),
    final(self).spec_total() == old(self).spec_total(),
    (*old(self)) is Retryable ==> final(self).spec_pending_amt() == old(self).spec_pending_amt() - (if r { path->Some_0.v as int } else { 0 }),
    !((*old(self)) is Retryable) ==> final(self).spec_fee() == old(self).spec_fee(),
//@at body_start
    proof { axiom_u8_32_key_model(); }
//@mutant pending_amount_not_reduced
    *pending_amt_msat -= path.final_value_msat();
//@with
    *pending_amt_msat -= 0;
''') + blk('insert', '''//@r7
//@ret r
//@requires
    !((*old(self)) is AwaitingOffer || (*old(self)) is AwaitingInvoice || (*old(self)) is InvoiceReceived || (*old(self)) is StaticInvoiceReceived),
    (*old(self)) is Retryable ==> old(self)->Retryable_pending_amt_msat + path.v <= u64::MAX
        && (old(self)->Retryable_pending_fee_msat is Some ==> old(self)->Retryable_pending_fee_msat->Some_0 + path.f <= u64::MAX),
//@ensures P C03 a-resolved-payment-cannot-acquire-new-in-flight-parts
    (*old(self)) is Fulfilled || (*old(self)) is Abandoned ==> !r && *final(self) == *old(self),
    (*old(self)) is Legacy || (*old(self)) is Retryable ==> r == !old(self).privs().contains(session_priv)
        && final(self).privs() == old(self).privs().insert(session_priv),
    (*final(self)) is Retryable <==> (*old(self)) is Retryable,
    (*old(self)) is Retryable ==> final(self).spec_pending_amt() == old(self).spec_pending_amt() + (if r { path.v as int } else { 0 }),
//@at body_start
    proof { axiom_u8_32_key_model(); }
//@mutant insert_into_abandoned
    PendingOutboundPayment::Legacy { session_privs } |
//@with
    PendingOutboundPayment::Abandoned { session_privs, .. } | PendingOutboundPayment::Legacy { session_privs } |
''') + '''}

}
fn main() {}
'''
open('/verif/units/u03.rs', 'w').write(T)
