use vstd::prelude::*;
verus! {
pub enum NoiseState {
	InProgress { x: u8 },
	Finished { sk: [u8; 32], sn: u64, sck: [u8; 32], rk: [u8; 32], rn: u64, rck: [u8; 32] },
}
pub struct PeerChannelEncryptor { pub noise_state: NoiseState }
pub const LN_MAX_MSG_LEN: usize = 65535;
pub uninterp spec fn be16(x: u16) -> [u8;2];
#[verifier::external_body] pub fn u16_to_be_bytes(x: u16) -> (r: [u8; 2]) ensures r == be16(x) { x.to_be_bytes() }
pub uninterp spec fn kdf2(ck: [u8;32], k: [u8;32]) -> ([u8;32],[u8;32]);
#[verifier::external_body]
pub fn hkdf_extract_expand_twice(salt: &[u8], ikm: &[u8]) -> (r: ([u8; 32], [u8; 32])) { unimplemented!() }
impl PeerChannelEncryptor {
    #[verifier::external_body]
	fn encrypt_with_ad(res: &mut [u8], n: u64, key: &[u8; 32], h: &[u8], plaintext: &[u8]) { unimplemented!() }
    #[verifier::external_body]
	fn encrypt_in_place_with_ad(res: &mut Vec<u8>, offset: usize, n: u64, key: &[u8; 32], h: &[u8]) { unimplemented!() }

	fn encrypt_message_with_header_0s(&mut self, msgbuf: &mut Vec<u8>) -> Result<(), ()> 
        requires old(msgbuf).len() >= 18
    {
		let msg_len = msgbuf.len() - 16 - 2;
		if msg_len > LN_MAX_MSG_LEN {
			debug_assert!(false, "Attempted to encrypt message longer than 65535 bytes!");
			return Err(());
		}

		match self.noise_state {
			NoiseState::Finished { ref mut sk, ref mut sn, ref mut sck, rk: _, rn: _, rck: _ } => {
				if *sn >= 1000 {
					let (new_sck, new_sk) = hkdf_extract_expand_twice(sck, sk);
					*sck = new_sck;
					*sk = new_sk;
					*sn = 0;
				}

				Self::encrypt_with_ad(
					&mut msgbuf[0..16 + 2],
					*sn,
					sk,
					&[0; 0],
					&u16_to_be_bytes(msg_len as u16),
				);
				*sn += 1;

				Self::encrypt_in_place_with_ad(msgbuf, 16 + 2, *sn, sk, &[0; 0]);
				*sn += 1;
				Ok(())
			},
			_ => {
				debug_assert!(
					false,
					"Tried to encrypt a message prior to noise handshake completion"
				);
				Err(())
			},
		}
	}
}
}
fn main() {}
