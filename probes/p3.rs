use vstd::prelude::*;
verus! {
pub struct H { pub outbound: bool, pub amount_msat: u64 }

fn cnt(hs: &[H], local: bool) -> usize {
    hs.iter().filter(|h| h.outbound != local).count()
}
fn sm(hs: &[H]) -> u64 {
    hs.iter().filter_map(|h| h.outbound.then_some(h.amount_msat)).sum()
}
}
fn main() {}
