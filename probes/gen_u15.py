probe = open('/verif/probes/u15_transport_lockstep.rs').read()
def between(a, b):
    i = probe.index(a); j = probe.index(b, i); return probe[i:j]
env = between('pub uninterp spec fn aead_enc', 'pub enum NoiseState {')
dirs = between('impl PeerChannelEncryptor {\n    pub open spec fn send_dir', 'impl PeerChannelEncryptor {\n    #[verifier::external_body]')
stubs = between('    #[verifier::external_body]\n\tfn encrypt_with_ad', '	fn encrypt_message_with_header_0s')
lemma = probe[probe.index('// (P) lock-step'):probe.rindex('}\nfn main')]
F='lightning/src/ln/peer_channel_encryptor.rs'
T = '''//! unit: u15
//! properties: C15
//! note: BOLT-8 transport after the handshake: sender/receiver nonce and key-rotation state machine, lock-step lemma
//! trusted: AEAD (ChaCha20-Poly1305) and HKDF are uninterpreted spec functions with the axioms dec(k,n,ad,enc(k,n,ad,p)) == Some(p), |enc(p)| == |p|+16, |dec(c)| + 16 == |c|, unbe16(be16(x)) == x; encrypt_with_ad / encrypt_in_place_with_ad / decrypt_with_ad / decrypt_in_place_with_ad / hkdf_extract_expand_twice are external_body stubs whose contracts are those definitions
//! trusted: R8 wrappers: `&mut v[a..b]` -> vec_range_mut (slice of a Vec, frame stated), `x.to_be_bytes()` -> u16_to_be_bytes, `u16::from_be_bytes` -> u16_from_be_bytes, `&mut msg[..]` -> msg (full-range reborrow); R11: panic!(..) -> unreachable!() (obligation: unreachable)
//! plemma: C15 lemma_transport_sync: receiver state == sender state implies the receiver recovers exactly the length and the body from the sender's bytes and both states are equal again (induction step for any number of messages and key rotations)
//! assume: the handshake has finished (noise_state is Finished) and nonces are <= 1001 (invariant of the functions themselves: they rotate at 1000); message length <= 65535
use vstd::prelude::*;
verus! {
pub struct PublicKey {} pub struct NoiseStep {} pub struct DirectionalNoiseState {} pub struct BidirectionalNoiseState {}
pub enum ErrorAction { DisconnectPeer { msg: Option<u8> } }
pub struct LightningError { pub err: String, pub action: ErrorAction }
//@const ''' + F + ''' LN_MAX_MSG_LEN

''' + env + '''
//@extract ''' + F + ''' :: enum NoiseState
//@end
//@extract ''' + F + ''' :: struct PeerChannelEncryptor
//@end
''' + dirs + '''
impl PeerChannelEncryptor {
''' + stubs + '''
//@extract ''' + F + ''' :: impl PeerChannelEncryptor :: fn encrypt_message_with_header_0s
//@ret r
//@requires
    old(msgbuf).len() >= 18, old(msgbuf).len() - 18 <= LN_MAX_MSG_LEN,
    old(self).noise_state is Finished,
    old(self).noise_state->sn <= 1001,
//@ensures P C15 sender-emits-enc-header-then-enc-body-under-consecutive-nonces-rotating-at-1000
    r is Ok,
    final(self).noise_state is Finished,
    final(self).send_dir() == after_msg(old(self).send_dir()),
    final(self).recv_dir() == old(self).recv_dir(),            // frame
    final(msgbuf)@.take(18) == wire_hdr(old(self).send_dir(), old(msgbuf)@.len() - 18),
    final(msgbuf)@.skip(18) == wire_body(old(self).send_dir(), old(msgbuf)@.skip(18)),
//@at body_start
    broadcast use axiom_aead_len;
//@rw ? R8
    &mut $v:ident[$a..$b]
//@with
    vec_range_mut($v, $a, $b)
//@rw ? R8
    &($x).to_be_bytes()
//@with
    &u16_to_be_bytes($x)
//@mutant nonce_reused_for_body
    *sn += 1; Self::encrypt_in_place_with_ad
//@with
    Self::encrypt_in_place_with_ad
//@mutant rotation_threshold_changed
    if *sn >= 1000 {
//@with
    if *sn > 1000 {
//@end

//@extract ''' + F + ''' :: impl PeerChannelEncryptor :: fn decrypt_length_header
//@ret r
//@requires
    msg.len() == 16 + 2, old(self).noise_state is Finished, old(self).noise_state->rn <= 1001,
//@ensures P C15 receiver-decrypts-header-under-the-same-rotation-rule
    final(self).noise_state is Finished,
    final(self).send_dir() == old(self).send_dir(),
    r is Ok ==> final(self).recv_dir() == after_hdr(old(self).recv_dir()),
    r is Ok <==> aead_dec(rotate(old(self).recv_dir()).k, rotate(old(self).recv_dir()).n, Seq::<u8>::empty(), msg@) is Some,
    r is Ok ==> ({ let pt = aead_dec(rotate(old(self).recv_dir()).k, rotate(old(self).recv_dir()).n, Seq::<u8>::empty(), msg@)->Some_0;
                   pt.len() == 2 && r->Ok_0 == unbe16_seq(pt) }),
//@at body_start
    broadcast use axiom_be16, axiom_aead_dec_len;
//@rw ? R8
    u16::from_be_bytes($x)
//@with
    u16_from_be_bytes($x)
//@rw ? R11
    panic!($m)
//@with
    unreachable!()
//@mutant receiver_rotates_late
    if *rn >= 1000 {
//@with
    if *rn >= 1002 {
//@end

//@extract ''' + F + ''' :: impl PeerChannelEncryptor :: fn decrypt_message
//@ret r
//@requires
    old(msg).len() >= 16, old(msg).len() <= LN_MAX_MSG_LEN + 16, old(self).noise_state is Finished, old(self).noise_state->rn <= 1001,
//@ensures P C15 receiver-decrypts-body-under-the-next-nonce
    final(self).noise_state is Finished,
    final(self).send_dir() == old(self).send_dir(),
    r is Ok ==> final(self).recv_dir() == (Dir { n: (old(self).recv_dir().n + 1) as u64, ..old(self).recv_dir() }),
    r is Ok <==> aead_dec(old(self).recv_dir().k, old(self).recv_dir().n, Seq::<u8>::empty(), old(msg)@) is Some,
    r is Ok ==> final(msg)@.take(old(msg).len() - 16) == aead_dec(old(self).recv_dir().k, old(self).recv_dir().n, Seq::<u8>::empty(), old(msg)@)->Some_0,
//@rw ? R8
    &mut msg[..]
//@with
    msg
//@rw ? R11
    panic!($m)
//@with
    unreachable!()
//@mutant body_nonce_not_advanced
    *rn += 1;
//@with
    *rn += 0;
//@end
}

''' + lemma + '''
}
fn main() {}
'''
open('/verif/units/u15.rs', 'w').write(T)
