use vstd::prelude::*;
verus! {

use vstd::std_specs::cmp::*;
pub assume_specification<T: core::cmp::Ord>[core::cmp::max::<T>](a: T, b: T) -> (r: T)
    ensures T::obeys_cmp_spec() ==> r == (if b.cmp_spec(&a) == core::cmp::Ordering::Less { a } else { b });
pub assume_specification<T: core::cmp::Ord>[core::cmp::min::<T>](a: T, b: T) -> (r: T)
    ensures T::obeys_cmp_spec() ==> r == (if b.cmp_spec(&a) == core::cmp::Ordering::Less { b } else { a });

fn f(a: u64, b: u64) -> (r: u64) ensures r >= a, r >= b { core::cmp::max(a, b) }

pub uninterp spec fn sha256_spec(x: [u8; 32]) -> [u8; 32];
#[verifier::external_body]
fn sha256(x: &[u8; 32]) -> (r: [u8; 32]) ensures r == sha256_spec(*x) { unimplemented!() }

fn place_secret(idx: u64) -> (r: u8) ensures r <= 48 {
    for i in 0..48u8
    {
        if idx & (1u64 << i) == (1u64 << i) {
            return i
        }
    }
    48
}

fn derive_secret(secret: [u8; 32], bits: u8, idx: u64) -> [u8; 32]
    requires bits <= 48
{
    let mut res: [u8; 32] = secret;
    for i in 0..bits {
        let bitpos = bits - 1 - i;
        if idx & (1 << bitpos) == (1 << bitpos) {
            res[(bitpos / 8) as usize] ^= 1 << (bitpos & 7);
            res = sha256(&res);
        }
    }
    res
}

}
fn main() {}
