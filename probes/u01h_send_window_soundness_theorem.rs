// PROBE for unit U01c (hand-applied rewrites R1-R6 to tx_builder.rs functions; not the machinery)
use vstd::prelude::*;
verus! {
use vstd::std_specs::cmp::*;
pub assume_specification<T: core::cmp::Ord>[core::cmp::max::<T>](a: T, b: T) -> (r: T)
    ensures T::obeys_cmp_spec() ==> r == (if b.cmp_spec(&a) == core::cmp::Ordering::Less { a } else { b });

// ---------------- env (trusted) ----------------
pub struct ChannelTypeFeatures { pub anchors: bool, pub zfc: bool }
impl ChannelTypeFeatures {
    #[verifier::external_body]
    pub fn supports_anchors_zero_fee_htlc_tx(&self) -> (r: bool) ensures r == self.anchors { self.anchors }
    #[verifier::external_body]
    pub fn supports_anchor_zero_fee_commitments(&self) -> (r: bool) ensures r == self.zfc { self.zfc }
}
pub const ANCHOR_OUTPUT_VALUE_SATOSHI: u64 = 330;
pub const COMMITMENT_TX_WEIGHT_PER_HTLC: u64 = 172;
pub const FEE_SPIKE_BUFFER_FEE_INCREASE_MULTIPLE: u64 = 2;

// ---------------- specs ----------------
pub open spec fn base_weight(ct: &ChannelTypeFeatures) -> int { if ct.anchors { 1124 } else { 724 } }
pub open spec fn commit_fee_spec(feerate: int, n: int, ct: &ChannelTypeFeatures) -> int {
    feerate * (base_weight(ct) + n * 172) / 1000
}
pub open spec fn success_w(ct: &ChannelTypeFeatures) -> int { if ct.anchors { 706 } else { 703 } }
pub open spec fn timeout_w(ct: &ChannelTypeFeatures) -> int { if ct.anchors { 666 } else { 663 } }
pub open spec fn second_stage_spec(ct: &ChannelTypeFeatures, feerate: int) -> (int, int) {
    if ct.anchors || ct.zfc { (0, 0) } else { (feerate * success_w(ct) / 1000, feerate * timeout_w(ct) / 1000) }
}
pub open spec fn anchors_spec(ct: &ChannelTypeFeatures) -> int { if ct.anchors { 660 } else { 0 } }

pub struct HTLCAmountDirection { pub outbound: bool, pub amount_msat: u64 }

pub open spec fn is_dust_spec(h: HTLCAmountDirection, local: bool, feerate: int, dust: int, ct: &ChannelTypeFeatures) -> bool {
    let (s, t) = second_stage_spec(ct, feerate);
    let f = if h.outbound == local { t } else { s };
    (h.amount_msat as int) / 1000 < dust + f
}

pub open spec fn sum_if(s: Seq<HTLCAmountDirection>, p: spec_fn(HTLCAmountDirection) -> bool) -> int
    decreases s.len()
{
    if s.len() == 0 { 0 } else { sum_if(s.drop_last(), p) + (if p(s.last()) { s.last().amount_msat as int } else { 0 }) }
}
pub open spec fn cnt_if(s: Seq<HTLCAmountDirection>, p: spec_fn(HTLCAmountDirection) -> bool) -> int
    decreases s.len()
{
    if s.len() == 0 { 0 } else { cnt_if(s.drop_last(), p) + (if p(s.last()) { 1int } else { 0 }) }
}
pub open spec fn total(s: Seq<HTLCAmountDirection>) -> int { sum_if(s, |h: HTLCAmountDirection| true) }

pub proof fn lemma_step(s: Seq<HTLCAmountDirection>, i: int, p: spec_fn(HTLCAmountDirection) -> bool)
    requires 0 <= i < s.len()
    ensures sum_if(s.take(i + 1), p) == sum_if(s.take(i), p) + (if p(s[i]) { s[i].amount_msat as int } else { 0 }),
            cnt_if(s.take(i + 1), p) == cnt_if(s.take(i), p) + (if p(s[i]) { 1int } else { 0 }),
{
    assert(s.take(i + 1).drop_last() =~= s.take(i));
}
pub proof fn lemma_bounds(s: Seq<HTLCAmountDirection>, p: spec_fn(HTLCAmountDirection) -> bool)
    ensures 0 <= sum_if(s, p) <= total(s), 0 <= cnt_if(s, p) <= s.len()
    decreases s.len()
{
    if s.len() > 0 { lemma_bounds(s.drop_last(), p); }
}
pub proof fn lemma_prefix_bounds(s: Seq<HTLCAmountDirection>, i: int, p: spec_fn(HTLCAmountDirection) -> bool)
    requires 0 <= i <= s.len()
    ensures 0 <= sum_if(s.take(i), p) <= total(s), 0 <= cnt_if(s.take(i), p) <= i
    decreases s.len() - i
{
    lemma_bounds(s.take(i), p);
    lemma_total_prefix(s, i);
}
pub proof fn lemma_total_prefix(s: Seq<HTLCAmountDirection>, i: int)
    requires 0 <= i <= s.len()
    ensures total(s.take(i)) <= total(s)
    decreases s.len() - i
{
    if i < s.len() { lemma_total_prefix(s, i + 1); lemma_step(s, i, |h: HTLCAmountDirection| true); }
    else { assert(s.take(i) =~= s); }
}
pub proof fn lemma_split(s: Seq<HTLCAmountDirection>)
    ensures sum_if(s, |h: HTLCAmountDirection| h.outbound) + sum_if(s, |h: HTLCAmountDirection| !h.outbound) == total(s)
    decreases s.len()
{
    if s.len() > 0 { lemma_split(s.drop_last()); }
}

// ---------------- chan_utils (verbatim) ----------------
pub fn htlc_success_tx_weight(channel_type_features: &ChannelTypeFeatures) -> (r: u64)
    ensures r == success_w(channel_type_features)
{
	const HTLC_SUCCESS_TX_WEIGHT: u64 = 703;
	const HTLC_SUCCESS_ANCHOR_TX_WEIGHT: u64 = 706;
	if channel_type_features.supports_anchors_zero_fee_htlc_tx() { HTLC_SUCCESS_ANCHOR_TX_WEIGHT } else { HTLC_SUCCESS_TX_WEIGHT }
}
pub fn htlc_timeout_tx_weight(channel_type_features: &ChannelTypeFeatures) -> (r: u64)
    ensures r == timeout_w(channel_type_features)
{
	const HTLC_TIMEOUT_TX_WEIGHT: u64 = 663;
	const HTLC_TIMEOUT_ANCHOR_TX_WEIGHT: u64 = 666;
	if channel_type_features.supports_anchors_zero_fee_htlc_tx() { HTLC_TIMEOUT_ANCHOR_TX_WEIGHT } else { HTLC_TIMEOUT_TX_WEIGHT }
}
pub fn commitment_tx_base_weight(channel_type_features: &ChannelTypeFeatures) -> (r: u64)
    ensures r == base_weight(channel_type_features)
{
	const COMMITMENT_TX_BASE_WEIGHT: u64 = 724;
	const COMMITMENT_TX_BASE_ANCHOR_WEIGHT: u64 = 1124;
	if channel_type_features.supports_anchors_zero_fee_htlc_tx() { COMMITMENT_TX_BASE_ANCHOR_WEIGHT } else { COMMITMENT_TX_BASE_WEIGHT }
}
pub fn commit_tx_fee_sat(feerate_per_kw: u32, num_htlcs: usize, channel_type_features: &ChannelTypeFeatures) -> (r: u64)
    requires num_htlcs <= 100_000,
    ensures r == commit_fee_spec(feerate_per_kw as int, num_htlcs as int, channel_type_features),
            r <= 0xffff_ffff * 17_300,
{
    proof {
        assert(feerate_per_kw as int * (base_weight(channel_type_features) + num_htlcs as int * 172) <= 0xffff_ffff * (1124 + 100_000 * 172)) by (nonlinear_arith)
            requires 0 <= feerate_per_kw <= 0xffff_ffff, 0 <= num_htlcs <= 100_000, 0 < base_weight(channel_type_features) <= 1124;
        assert(feerate_per_kw as int * (base_weight(channel_type_features) + num_htlcs as int * 172) >= 0) by (nonlinear_arith)
            requires 0 <= feerate_per_kw, 0 <= num_htlcs, 0 < base_weight(channel_type_features);
    }
	feerate_per_kw as u64 *
		(commitment_tx_base_weight(channel_type_features) +
			num_htlcs as u64 * COMMITMENT_TX_WEIGHT_PER_HTLC)
		/ 1000
}
pub fn second_stage_tx_fees_sat(
	channel_type: &ChannelTypeFeatures, feerate_sat_per_1000_weight: u32,
) -> (r: (u64, u64))
    ensures (r.0 as int, r.1 as int) == second_stage_spec(channel_type, feerate_sat_per_1000_weight as int),
            r.0 <= 0xffff_ffff, r.1 <= 0xffff_ffff,
{
	if channel_type.supports_anchors_zero_fee_htlc_tx()
		|| channel_type.supports_anchor_zero_fee_commitments()
	{
		(0, 0)
	} else {
        proof {
            assert(feerate_sat_per_1000_weight as int * 703 / 1000 <= 0xffff_ffff) by (nonlinear_arith) requires 0 <= feerate_sat_per_1000_weight <= 0xffff_ffff;
            assert(feerate_sat_per_1000_weight as int * 663 / 1000 <= 0xffff_ffff) by (nonlinear_arith) requires 0 <= feerate_sat_per_1000_weight <= 0xffff_ffff;
        }
		(
			feerate_sat_per_1000_weight as u64 * htlc_success_tx_weight(channel_type) / 1000,
			feerate_sat_per_1000_weight as u64 * htlc_timeout_tx_weight(channel_type) / 1000,
		)
	}
}

// ---------------- tx_builder (verbatim modulo R6) ----------------
impl HTLCAmountDirection {
	fn is_dust(
		&self, local: bool, feerate_per_kw: u32, broadcaster_dust_limit_satoshis: u64,
		channel_type: &ChannelTypeFeatures,
	) -> (r: bool)
        requires broadcaster_dust_limit_satoshis <= 21_000_000_0000_0000,
        ensures r == is_dust_spec(*self, local, feerate_per_kw as int, broadcaster_dust_limit_satoshis as int, channel_type)
    {
		let (success_tx_fee_sat, timeout_tx_fee_sat) =
			second_stage_tx_fees_sat(channel_type, feerate_per_kw);
		let htlc_tx_fee_sat =
			if self.outbound == local { timeout_tx_fee_sat } else { success_tx_fee_sat };
		self.amount_msat / 1000 < broadcaster_dust_limit_satoshis + htlc_tx_fee_sat
	}
}

fn total_anchors_sat(channel_type: &ChannelTypeFeatures) -> (r: u64)
    ensures r == anchors_spec(channel_type)
{
	if channel_type.supports_anchors_zero_fee_htlc_tx() {
		ANCHOR_OUTPUT_VALUE_SATOSHI * 2
	} else {
		0
	}
}

fn checked_sub_from_funder(
	is_outbound_from_holder: bool, value_to_holder: u64, value_to_counterparty: u64,
	value_to_subtract: u64,
) -> (r: Result<(u64, u64), ()>)
    ensures
        r is Ok <==> (if is_outbound_from_holder { value_to_holder >= value_to_subtract } else { value_to_counterparty >= value_to_subtract }),
        r is Ok ==> (if is_outbound_from_holder {
                r->Ok_0.0 == value_to_holder - value_to_subtract && r->Ok_0.1 == value_to_counterparty
            } else {
                r->Ok_0.0 == value_to_holder && r->Ok_0.1 == value_to_counterparty - value_to_subtract }),
{
	if is_outbound_from_holder {
		Ok((value_to_holder.checked_sub(value_to_subtract).ok_or(())?, value_to_counterparty))
	} else {
		Ok((value_to_holder, value_to_counterparty.checked_sub(value_to_subtract).ok_or(())?))
	}
}

fn saturating_sub_from_funder(
	is_outbound_from_holder: bool, value_to_holder: u64, value_to_counterparty: u64,
	value_to_subtract: u64,
) -> (r: (u64, u64))
    ensures r == (if is_outbound_from_holder {
        ((if value_to_holder >= value_to_subtract { (value_to_holder - value_to_subtract) as u64 } else { 0u64 }), value_to_counterparty)
      } else {
        (value_to_holder, (if value_to_counterparty >= value_to_subtract { (value_to_counterparty - value_to_subtract) as u64 } else { 0u64 })) })
{
	if is_outbound_from_holder {
		(value_to_holder.saturating_sub(value_to_subtract), value_to_counterparty)
	} else {
		(value_to_holder, value_to_counterparty.saturating_sub(value_to_subtract))
	}
}

pub open spec fn has_output_spec(ob: bool, h: int, c: int, feerate: int, n: int, dust: int, ct: &ChannelTypeFeatures) -> bool {
    let fee = commit_fee_spec(feerate, n, ct) * 1000;
    let h2 = if ob { if h >= fee { h - fee } else { 0 } } else { h };
    let c2 = if ob { c } else { if c >= fee { c - fee } else { 0 } };
    !(h2 < dust * 1000 && c2 < dust * 1000 && n == 0 && !ct.zfc)
}

fn has_output(
	is_outbound_from_holder: bool, holder_balance_before_fee_msat: u64,
	counterparty_balance_before_fee_msat: u64, feerate_per_kw: u32, nondust_htlc_count: usize,
	broadcaster_dust_limit_satoshis: u64, channel_type: &ChannelTypeFeatures,
) -> (r: bool)
    requires nondust_htlc_count <= 100_000, broadcaster_dust_limit_satoshis <= 21_000_000_0000_0000,
    ensures r == has_output_spec(is_outbound_from_holder, holder_balance_before_fee_msat as int, counterparty_balance_before_fee_msat as int,
        feerate_per_kw as int, nondust_htlc_count as int, broadcaster_dust_limit_satoshis as int, channel_type)
{
	let commit_tx_fee_sat = commit_tx_fee_sat(feerate_per_kw, nondust_htlc_count, channel_type);
	let (holder_balance_msat, counterparty_balance_msat) = saturating_sub_from_funder(
		is_outbound_from_holder,
		holder_balance_before_fee_msat,
		counterparty_balance_before_fee_msat,
		commit_tx_fee_sat.saturating_mul(1000),
	);

	// Make sure the commitment transaction has at least one output
	let dust_limit_msat = broadcaster_dust_limit_satoshis * 1000;
	let has_no_output = holder_balance_msat < dust_limit_msat
		&& counterparty_balance_msat < dust_limit_msat
		&& nondust_htlc_count == 0
		// 0FC channels always have a P2A output on the commitment transaction
		&& !channel_type.supports_anchor_zero_fee_commitments();
	!has_no_output
}

pub open spec fn htlc_fees_spec(feerate: int, na: int, no: int, ct: &ChannelTypeFeatures) -> int {
    let (s, t) = second_stage_spec(ct, feerate);
    na * s + no * t
}
pub fn htlc_tx_fees_sat(feerate_per_kw: u32, num_accepted_htlcs: usize, num_offered_htlcs: usize, channel_type_features: &ChannelTypeFeatures) -> (r: u64)
    requires num_accepted_htlcs <= 100_000, num_offered_htlcs <= 100_000,
    ensures r == htlc_fees_spec(feerate_per_kw as int, num_accepted_htlcs as int, num_offered_htlcs as int, channel_type_features),
            r <= 2 * 100_000 * 0xffff_ffff,
{
	let (htlc_success_tx_fee_sat, htlc_timeout_tx_fee_sat) = second_stage_tx_fees_sat(
		channel_type_features, feerate_per_kw,
	);
    proof {
        assert(num_accepted_htlcs as int * htlc_success_tx_fee_sat as int <= 100_000 * 0xffff_ffff) by (nonlinear_arith)
            requires 0 <= num_accepted_htlcs <= 100_000, 0 <= htlc_success_tx_fee_sat <= 0xffff_ffff;
        assert(num_offered_htlcs as int * htlc_timeout_tx_fee_sat as int <= 100_000 * 0xffff_ffff) by (nonlinear_arith)
            requires 0 <= num_offered_htlcs <= 100_000, 0 <= htlc_timeout_tx_fee_sat <= 0xffff_ffff;
    }
	num_accepted_htlcs as u64 * htlc_success_tx_fee_sat + num_offered_htlcs as u64 * htlc_timeout_tx_fee_sat
}

pub open spec fn dust_buffer_spec(f: int) -> int {
    let a = if f + 2530 > 0xffff_ffff { 0xffff_ffff } else { f + 2530 };
    let b = if f * 1250 > 0xffff_ffff { 0xffff_ffff } else { f * 1250 / 1000 };
    if a >= b { a } else { b }
}
fn get_dust_buffer_feerate(feerate_per_kw: u32) -> (r: u32)
    ensures r == dust_buffer_spec(feerate_per_kw as int), r >= feerate_per_kw
{
	let feerate_plus_quarter = feerate_per_kw.checked_mul(1250).map(|v: u32| -> (o: u32) ensures o == v / 1000 { v / 1000 });
	core::cmp::max(feerate_per_kw.saturating_add(2530), feerate_plus_quarter.unwrap_or(u32::MAX))
}

pub open spec fn valid_htlcs(s: Seq<HTLCAmountDirection>) -> bool {
    s.len() <= 2000 && total(s) <= 21_000_000_0000_0000_000
}

pub open spec fn p_accepted_nondust(local: bool, fr: int, dust: int, ct: &ChannelTypeFeatures) -> spec_fn(HTLCAmountDirection) -> bool {
    |h: HTLCAmountDirection| h.outbound != local && !is_dust_spec(h, local, fr, dust, ct)
}
pub open spec fn p_offered_nondust(local: bool, fr: int, dust: int, ct: &ChannelTypeFeatures) -> spec_fn(HTLCAmountDirection) -> bool {
    |h: HTLCAmountDirection| h.outbound == local && !is_dust_spec(h, local, fr, dust, ct)
}
pub open spec fn p_dust(local: bool, fr: int, dust: int, ct: &ChannelTypeFeatures) -> spec_fn(HTLCAmountDirection) -> bool {
    |h: HTLCAmountDirection| is_dust_spec(h, local, fr, dust, ct)
}
pub open spec fn p_nondust(local: bool, fr: int, dust: int, ct: &ChannelTypeFeatures) -> spec_fn(HTLCAmountDirection) -> bool {
    |h: HTLCAmountDirection| !is_dust_spec(h, local, fr, dust, ct)
}

pub open spec fn cphf_spec(local: bool, s: Seq<HTLCAmountDirection>, dbf: int, fr: int, dust: int, ct: &ChannelTypeFeatures) -> (int, int) {
    let na = cnt_if(s, p_accepted_nondust(local, dbf, dust, ct));
    let no = cnt_if(s, p_offered_nondust(local, dbf, dust, ct));
    ((commit_fee_spec(fr, na + no, ct) + htlc_fees_spec(fr, na, no, ct)) * 1000,
     (commit_fee_spec(fr, na + 1 + no, ct) + htlc_fees_spec(fr, na + 1, no, ct)) * 1000)
}

fn commit_plus_htlc_tx_fees_msat(
	local: bool, next_commitment_htlcs: &[HTLCAmountDirection], dust_buffer_feerate: u32,
	feerate: u32, broadcaster_dust_limit_satoshis: u64, channel_type: &ChannelTypeFeatures,
) -> (r: (u64, u64))
    requires valid_htlcs(next_commitment_htlcs@), broadcaster_dust_limit_satoshis <= 21_000_000_0000_0000,
    ensures (r.0 as int, r.1 as int) == cphf_spec(local, next_commitment_htlcs@, dust_buffer_feerate as int, feerate as int, broadcaster_dust_limit_satoshis as int, channel_type),
        r.0 <= 1_000_000_000_000_000_000, r.1 <= 1_000_000_000_000_000_000,
{
	let accepted_nondust_htlcs = { // R6: .iter().filter(|htlc| ..).count()
        let __s = next_commitment_htlcs; let mut __n: usize = 0; let mut __i: usize = 0;
        while __i < __s.len()
            invariant __i <= __s.len(), __s@ == next_commitment_htlcs@, valid_htlcs(__s@), broadcaster_dust_limit_satoshis <= 21_000_000_0000_0000,
                __n == cnt_if(__s@.take(__i as int), p_accepted_nondust(local, dust_buffer_feerate as int, broadcaster_dust_limit_satoshis as int, channel_type)),
            decreases __s.len() - __i
        {
            proof { lemma_step(__s@, __i as int, p_accepted_nondust(local, dust_buffer_feerate as int, broadcaster_dust_limit_satoshis as int, channel_type));
                    lemma_prefix_bounds(__s@, __i as int, p_accepted_nondust(local, dust_buffer_feerate as int, broadcaster_dust_limit_satoshis as int, channel_type)); }
            let htlc = &__s[__i];
            if {
				htlc.outbound != local
					&& !htlc.is_dust(
						local,
						dust_buffer_feerate,
						broadcaster_dust_limit_satoshis,
						channel_type,
					)
			} { __n = __n + 1; }
            __i = __i + 1;
        }
        proof { assert(__s@.take(__s@.len() as int) =~= __s@); }
        __n };
	let offered_nondust_htlcs = { // R6
        let __s = next_commitment_htlcs; let mut __n: usize = 0; let mut __i: usize = 0;
        while __i < __s.len()
            invariant __i <= __s.len(), __s@ == next_commitment_htlcs@, valid_htlcs(__s@), broadcaster_dust_limit_satoshis <= 21_000_000_0000_0000,
                __n == cnt_if(__s@.take(__i as int), p_offered_nondust(local, dust_buffer_feerate as int, broadcaster_dust_limit_satoshis as int, channel_type)),
            decreases __s.len() - __i
        {
            proof { lemma_step(__s@, __i as int, p_offered_nondust(local, dust_buffer_feerate as int, broadcaster_dust_limit_satoshis as int, channel_type));
                    lemma_prefix_bounds(__s@, __i as int, p_offered_nondust(local, dust_buffer_feerate as int, broadcaster_dust_limit_satoshis as int, channel_type)); }
            let htlc = &__s[__i];
            if {
				htlc.outbound == local
					&& !htlc.is_dust(
						local,
						dust_buffer_feerate,
						broadcaster_dust_limit_satoshis,
						channel_type,
					)
			} { __n = __n + 1; }
            __i = __i + 1;
        }
        proof { assert(__s@.take(__s@.len() as int) =~= __s@); }
        __n };
    proof {
        lemma_bounds(next_commitment_htlcs@, p_accepted_nondust(local, dust_buffer_feerate as int, broadcaster_dust_limit_satoshis as int, channel_type));
        lemma_bounds(next_commitment_htlcs@, p_offered_nondust(local, dust_buffer_feerate as int, broadcaster_dust_limit_satoshis as int, channel_type));
    }

	let commitment_fee_sat =
		commit_tx_fee_sat(feerate, accepted_nondust_htlcs + offered_nondust_htlcs, channel_type);
	let second_stage_fees_sat =
		htlc_tx_fees_sat(feerate, accepted_nondust_htlcs, offered_nondust_htlcs, channel_type);
	let total_fees_msat = (commitment_fee_sat + second_stage_fees_sat) * 1000;

	let extra_accepted_htlc_commitment_fee_sat = commit_tx_fee_sat(
		feerate,
		accepted_nondust_htlcs + 1 + offered_nondust_htlcs,
		channel_type,
	);
	let extra_accepted_htlc_second_stage_fees_sat =
		htlc_tx_fees_sat(feerate, accepted_nondust_htlcs + 1, offered_nondust_htlcs, channel_type);
	let extra_accepted_htlc_total_fees_msat =
		(extra_accepted_htlc_commitment_fee_sat + extra_accepted_htlc_second_stage_fees_sat) * 1000;

	(total_fees_msat, extra_accepted_htlc_total_fees_msat)
}

pub open spec fn dust_exposure_spec(local: bool, s: Seq<HTLCAmountDirection>, fr: int, limiting: Option<u32>, dust: int, ct: &ChannelTypeFeatures) -> (int, Option<int>) {
    let lim = match limiting { Some(l) => l as int, None => fr };
    let excess = if fr >= lim { fr - lim } else { 0 };
    let dbf = dust_buffer_spec(fr);
    let d = sum_if(s, p_dust(local, dbf, dust, ct));
    if local || excess == 0 { (d, None) } else {
        let (a, b) = cphf_spec(local, s, dbf, excess, dust, ct);
        (d + a, Some(d + b))
    }
}

fn get_dust_exposure_stats(
	local: bool, commitment_htlcs: &[HTLCAmountDirection], feerate_per_kw: u32,
	dust_exposure_limiting_feerate: Option<u32>, broadcaster_dust_limit_satoshis: u64,
	channel_type: &ChannelTypeFeatures,
) -> (r: (u64, Option<u64>))
    requires valid_htlcs(commitment_htlcs@), broadcaster_dust_limit_satoshis <= 21_000_000_0000_0000,
        channel_type.zfc ==> feerate_per_kw == 0,
    ensures ({ let sp = dust_exposure_spec(local, commitment_htlcs@, feerate_per_kw as int, dust_exposure_limiting_feerate, broadcaster_dust_limit_satoshis as int, channel_type);
        r.0 as int == sp.0 && (r.1 is Some <==> sp.1 is Some) && (r.1 is Some ==> r.1->Some_0 as int == sp.1->Some_0) }),
{
	let excess_feerate =
		feerate_per_kw.saturating_sub(dust_exposure_limiting_feerate.unwrap_or(feerate_per_kw));
	if channel_type.supports_anchor_zero_fee_commitments() {
		debug_assert!(feerate_per_kw == 0);
		debug_assert!(excess_feerate == 0);
	}

	// Increment the feerate by a buffer to calculate dust exposure
	let dust_buffer_feerate = get_dust_buffer_feerate(feerate_per_kw);

	// Calculate dust exposure on commitment transaction
	let dust_exposure_msat = { // R6: filter_map(|htlc| C.then_some(V)).sum()
        let __s = commitment_htlcs; let mut __t: u64 = 0; let mut __i: usize = 0;
        while __i < __s.len()
            invariant __i <= __s.len(), __s@ == commitment_htlcs@, valid_htlcs(__s@), broadcaster_dust_limit_satoshis <= 21_000_000_0000_0000,
                __t == sum_if(__s@.take(__i as int), p_dust(local, dust_buffer_feerate as int, broadcaster_dust_limit_satoshis as int, channel_type)),
            decreases __s.len() - __i
        {
            proof { lemma_step(__s@, __i as int, p_dust(local, dust_buffer_feerate as int, broadcaster_dust_limit_satoshis as int, channel_type));
                    lemma_prefix_bounds(__s@, __i as int + 1, p_dust(local, dust_buffer_feerate as int, broadcaster_dust_limit_satoshis as int, channel_type)); }
            let htlc = &__s[__i];
            if htlc.is_dust(local, dust_buffer_feerate, broadcaster_dust_limit_satoshis, channel_type) { __t = __t + htlc.amount_msat; }
            __i = __i + 1;
        }
        proof { assert(__s@.take(__s@.len() as int) =~= __s@); }
        __t };

	if local || excess_feerate == 0 {
		(dust_exposure_msat, None)
	} else {
		// Add any excess fees to dust exposure on counterparty transactions
		let (excess_fees_msat, extra_accepted_htlc_excess_fees_msat) =
			commit_plus_htlc_tx_fees_msat(
				local,
				&commitment_htlcs,
				dust_buffer_feerate,
				excess_feerate,
				broadcaster_dust_limit_satoshis,
				channel_type,
			);
        proof { lemma_bounds(commitment_htlcs@, p_dust(local, dust_buffer_feerate as int, broadcaster_dust_limit_satoshis as int, channel_type)); }
		(
			dust_exposure_msat + excess_fees_msat,
			Some(dust_exposure_msat + extra_accepted_htlc_excess_fees_msat),
		)
	}
}

pub struct NextCommitmentStats {
	pub holder_balance_msat: u64,
	pub counterparty_balance_msat: u64,
	pub dust_exposure_msat: u64,
}

pub open spec fn spiked_spec(fr: int, spike: bool, ct: &ChannelTypeFeatures) -> int {
    if spike && !ct.anchors { if fr * 2 > 0xffff_ffff { 0xffff_ffff } else { fr * 2 } } else { fr }
}


pub open spec fn stats_spec(local: bool, ob: bool, cv: int, vth: int, s: Seq<HTLCAmountDirection>, addl: int, fr: int, spike: bool,
    lim: Option<u32>, dust: int, ct: &ChannelTypeFeatures) -> Option<(int, int, int)>
{
    if cv * 1000 < vth { None } else {
        let vtc = cv * 1000 - vth;
        let out = sum_if(s, |h: HTLCAmountDirection| h.outbound);
        let inn = sum_if(s, |h: HTLCAmountDirection| !h.outbound);
        if vth < out || vtc < inn { None } else {
            let h0 = vth - out; let c0 = vtc - inn; let anc = 1000 * anchors_spec(ct);
            if (ob && h0 < anc) || (!ob && c0 < anc) { None } else {
                let h1 = if ob { h0 - anc } else { h0 }; let c1 = if ob { c0 } else { c0 - anc };
                let sp = spiked_spec(fr, spike, ct);
                let spn = cnt_if(s, p_nondust(local, sp, dust, ct));
                if !has_output_spec(ob, h1, c1, sp, spn, dust, ct) { None } else {
                    let n = cnt_if(s, p_nondust(local, fr, dust, ct)) + addl;
                    let fee = 1000 * commit_fee_spec(sp, n, ct);
                    if (ob && h1 < fee) || (!ob && c1 < fee) { None } else {
                        Some((if ob { h1 - fee } else { h1 }, if ob { c1 } else { c1 - fee }, dust_exposure_spec(local, s, fr, lim, dust, ct).0))
                    }
                }
            }
        }
    }
}

fn get_next_commitment_stats(
	local: bool, is_outbound_from_holder: bool, channel_value_satoshis: u64,
	value_to_holder_msat: u64, next_commitment_htlcs: &[HTLCAmountDirection],
	addl_nondust_htlc_count: usize, feerate_per_kw: u32, assume_fee_spike: bool,
	dust_exposure_limiting_feerate: Option<u32>, broadcaster_dust_limit_satoshis: u64,
	channel_type: &ChannelTypeFeatures,
) -> (r: Result<NextCommitmentStats, ()>)
    requires
        valid_htlcs(next_commitment_htlcs@),
        broadcaster_dust_limit_satoshis <= 21_000_000_0000_0000,
        channel_value_satoshis <= 21_000_000_0000_0000,
        addl_nondust_htlc_count <= 2,
        channel_type.zfc ==> feerate_per_kw == 0,
    ensures
        // full functional contract: the exec function computes exactly stats_spec
        ({ let sp = stats_spec(local, is_outbound_from_holder, channel_value_satoshis as int, value_to_holder_msat as int, next_commitment_htlcs@, addl_nondust_htlc_count as int,
                feerate_per_kw as int, assume_fee_spike, dust_exposure_limiting_feerate, broadcaster_dust_limit_satoshis as int, channel_type);
           (r is Ok <==> sp is Some) && (r is Ok ==> r->Ok_0.holder_balance_msat == sp->Some_0.0 && r->Ok_0.counterparty_balance_msat == sp->Some_0.1 && r->Ok_0.dust_exposure_msat == sp->Some_0.2) }),
        // (P) conservation: every pending HTLC counted exactly once, funder pays anchors + fee
        r is Ok ==> ({
            let st = r->Ok_0;
            let sp = spiked_spec(feerate_per_kw as int, assume_fee_spike, channel_type);
            let n = cnt_if(next_commitment_htlcs@, p_nondust(local, feerate_per_kw as int, broadcaster_dust_limit_satoshis as int, channel_type)) + addl_nondust_htlc_count;
            let fee = commit_fee_spec(sp, n, channel_type);
            &&& st.holder_balance_msat + st.counterparty_balance_msat + total(next_commitment_htlcs@)
                  + 1000 * anchors_spec(channel_type) + 1000 * fee == 1000 * channel_value_satoshis
            // non-funder pays nothing but its own HTLCs
            &&& is_outbound_from_holder ==> st.counterparty_balance_msat == channel_value_satoshis * 1000 - value_to_holder_msat
                    - sum_if(next_commitment_htlcs@, |h: HTLCAmountDirection| !h.outbound)
            &&& !is_outbound_from_holder ==> st.holder_balance_msat == value_to_holder_msat
                    - sum_if(next_commitment_htlcs@, |h: HTLCAmountDirection| h.outbound)
            &&& st.dust_exposure_msat as int == dust_exposure_spec(local, next_commitment_htlcs@, feerate_per_kw as int, dust_exposure_limiting_feerate, broadcaster_dust_limit_satoshis as int, channel_type).0
        }),
{
	if channel_type.supports_anchor_zero_fee_commitments() {
		debug_assert!(feerate_per_kw == 0);
	}

	// Calculate balances after htlcs
	let value_to_counterparty_msat =
		(channel_value_satoshis * 1000).checked_sub(value_to_holder_msat).ok_or(())?;
	let outbound_htlcs_value_msat: u64 = { // R6
        let __s = next_commitment_htlcs; let mut __t: u64 = 0; let mut __i: usize = 0;
        while __i < __s.len()
            invariant __i <= __s.len(), __s@ == next_commitment_htlcs@, valid_htlcs(__s@),
                __t == sum_if(__s@.take(__i as int), |h: HTLCAmountDirection| h.outbound),
            decreases __s.len() - __i
        {
            proof { lemma_step(__s@, __i as int, |h: HTLCAmountDirection| h.outbound);
                    lemma_prefix_bounds(__s@, __i as int + 1, |h: HTLCAmountDirection| h.outbound); }
            let htlc = &__s[__i];
            if htlc.outbound { __t = __t + htlc.amount_msat; }
            __i = __i + 1;
        }
        proof { assert(__s@.take(__s@.len() as int) =~= __s@); }
        __t };
	let inbound_htlcs_value_msat: u64 = { // R6
        let __s = next_commitment_htlcs; let mut __t: u64 = 0; let mut __i: usize = 0;
        while __i < __s.len()
            invariant __i <= __s.len(), __s@ == next_commitment_htlcs@, valid_htlcs(__s@),
                __t == sum_if(__s@.take(__i as int), |h: HTLCAmountDirection| !h.outbound),
            decreases __s.len() - __i
        {
            proof { lemma_step(__s@, __i as int, |h: HTLCAmountDirection| !h.outbound);
                    lemma_prefix_bounds(__s@, __i as int + 1, |h: HTLCAmountDirection| !h.outbound); }
            let htlc = &__s[__i];
            if (!htlc.outbound) { __t = __t + htlc.amount_msat; }
            __i = __i + 1;
        }
        proof { assert(__s@.take(__s@.len() as int) =~= __s@); }
        __t };
	let value_to_holder_after_htlcs_msat =
		value_to_holder_msat.checked_sub(outbound_htlcs_value_msat).ok_or(())?;
	let value_to_counterparty_after_htlcs_msat =
		value_to_counterparty_msat.checked_sub(inbound_htlcs_value_msat).ok_or(())?;

	let total_anchors_sat = total_anchors_sat(channel_type);
	let (holder_balance_before_fee_msat, counterparty_balance_before_fee_msat) =
		checked_sub_from_funder(
			is_outbound_from_holder,
			value_to_holder_after_htlcs_msat,
			value_to_counterparty_after_htlcs_msat,
			total_anchors_sat.saturating_mul(1000),
		)?;

	let (dust_exposure_msat, _extra_accepted_htlc_dust_exposure_msat) = get_dust_exposure_stats(
		local,
		next_commitment_htlcs,
		feerate_per_kw,
		dust_exposure_limiting_feerate,
		broadcaster_dust_limit_satoshis,
		channel_type,
	);

	let spiked_feerate = if assume_fee_spike && !channel_type.supports_anchors_zero_fee_htlc_tx() {
		feerate_per_kw.saturating_mul(FEE_SPIKE_BUFFER_FEE_INCREASE_MULTIPLE as u32)
	} else {
		feerate_per_kw
	};

	let spiked_nondust_htlc_count = { // R6
        let __s = next_commitment_htlcs; let mut __n: usize = 0; let mut __i: usize = 0;
        while __i < __s.len()
            invariant __i <= __s.len(), __s@ == next_commitment_htlcs@, valid_htlcs(__s@), broadcaster_dust_limit_satoshis <= 21_000_000_0000_0000,
                __n == cnt_if(__s@.take(__i as int), p_nondust(local, spiked_feerate as int, broadcaster_dust_limit_satoshis as int, channel_type)),
            decreases __s.len() - __i
        {
            proof { lemma_step(__s@, __i as int, p_nondust(local, spiked_feerate as int, broadcaster_dust_limit_satoshis as int, channel_type));
                    lemma_prefix_bounds(__s@, __i as int, p_nondust(local, spiked_feerate as int, broadcaster_dust_limit_satoshis as int, channel_type)); }
            let htlc = &__s[__i];
            if {
				!htlc.is_dust(local, spiked_feerate, broadcaster_dust_limit_satoshis, channel_type)
			} { __n = __n + 1; }
            __i = __i + 1;
        }
        proof { assert(__s@.take(__s@.len() as int) =~= __s@); }
        __n };
    proof { lemma_bounds(next_commitment_htlcs@, p_nondust(local, spiked_feerate as int, broadcaster_dust_limit_satoshis as int, channel_type)); }

	if !has_output(
		is_outbound_from_holder,
		holder_balance_before_fee_msat,
		counterparty_balance_before_fee_msat,
		spiked_feerate,
		spiked_nondust_htlc_count,
		broadcaster_dust_limit_satoshis,
		channel_type,
	) {
		return Err(());
	}

	let nondust_htlc_count = { // R6
        let __s = next_commitment_htlcs; let mut __n: usize = 0; let mut __i: usize = 0;
        while __i < __s.len()
            invariant __i <= __s.len(), __s@ == next_commitment_htlcs@, valid_htlcs(__s@), broadcaster_dust_limit_satoshis <= 21_000_000_0000_0000,
                __n == cnt_if(__s@.take(__i as int), p_nondust(local, feerate_per_kw as int, broadcaster_dust_limit_satoshis as int, channel_type)),
            decreases __s.len() - __i
        {
            proof { lemma_step(__s@, __i as int, p_nondust(local, feerate_per_kw as int, broadcaster_dust_limit_satoshis as int, channel_type));
                    lemma_prefix_bounds(__s@, __i as int, p_nondust(local, feerate_per_kw as int, broadcaster_dust_limit_satoshis as int, channel_type)); }
            let htlc = &__s[__i];
            if {
				!htlc.is_dust(local, feerate_per_kw, broadcaster_dust_limit_satoshis, channel_type)
			} { __n = __n + 1; }
            __i = __i + 1;
        }
        proof { assert(__s@.take(__s@.len() as int) =~= __s@); }
        __n };
    proof { lemma_bounds(next_commitment_htlcs@, p_nondust(local, feerate_per_kw as int, broadcaster_dust_limit_satoshis as int, channel_type));
            lemma_split(next_commitment_htlcs@); }
	let commit_tx_fee_sat = commit_tx_fee_sat(
		spiked_feerate,
		nondust_htlc_count + addl_nondust_htlc_count,
		channel_type,
	);
	let (holder_balance_msat, counterparty_balance_msat) = checked_sub_from_funder(
		is_outbound_from_holder,
		holder_balance_before_fee_msat,
		counterparty_balance_before_fee_msat,
		commit_tx_fee_sat.saturating_mul(1000),
	)?;

	Ok(NextCommitmentStats {
		holder_balance_msat,
		counterparty_balance_msat,
		dust_exposure_msat,
	})
}

// =====================  U01h: end-to-end soundness of the send window (composition lemma)  =====================
pub open spec fn ssub(a: int, b: int) -> int { if a >= b { a - b } else { 0 } }
pub open spec fn affordable(a: int, cap: int, spiked: int, n: int, d: int, ct: &ChannelTypeFeatures) -> bool {
    if a / 1000 >= d { a + commit_fee_spec(spiked, n + 2, ct) * 1000 <= cap } else { a + commit_fee_spec(spiked, n + 1, ct) * 1000 <= cap }
}
pub open spec fn cp_affordable(a: int, rbal: int, fr: int, n: int, d: int, hres: int, ct: &ChannelTypeFeatures) -> bool {
    a / 1000 >= d ==> rbal >= commit_fee_spec(fr, n + 1, ct) * 1000 + hres * 1000
}
pub proof fn lemma_push_sums(s: Seq<HTLCAmountDirection>, h: HTLCAmountDirection, p: spec_fn(HTLCAmountDirection) -> bool)
    ensures sum_if(s.push(h), p) == sum_if(s, p) + (if p(h) { h.amount_msat as int } else { 0 }),
            cnt_if(s.push(h), p) == cnt_if(s, p) + (if p(h) { 1int } else { 0 }),
{
    assert(s.push(h).drop_last() =~= s);
}
pub proof fn lemma_fee_mono2(f1: int, f2: int, n1: int, n2: int, ct: &ChannelTypeFeatures)
    requires 0 <= f1 <= f2, 0 <= n1 <= n2
    ensures 0 <= commit_fee_spec(f1, n1, ct) <= commit_fee_spec(f2, n2, ct)
{
    assert(f1 * (base_weight(ct) + n1 * 172) <= f2 * (base_weight(ct) + n2 * 172)) by (nonlinear_arith) requires 0 <= f1 <= f2, 0 <= n1 <= n2, base_weight(ct) > 0;
    assert(f1 * (base_weight(ct) + n1 * 172) >= 0) by (nonlinear_arith) requires 0 <= f1, 0 <= n1, base_weight(ct) > 0;
}

// One commitment (`local` tells which), one new outbound HTLC of `a` msat inside the window: the commitment stays valid and reserves are kept.
pub proof fn lemma_window_sound_one_commitment(local: bool, ob: bool, cv: int, vth: int, s: Seq<HTLCAmountDirection>, fr: int, lim: Option<u32>,
    dust: int, cres: int, hres: int, a: int, ct: &ChannelTypeFeatures)
    requires
        0 <= fr <= 0xffff_ffff, 1 <= dust, 0 <= cres, 0 <= hres, 1 <= a <= 0xffff_ffff_ffff_ffff, 0 <= cv, 0 <= vth,
        ct.zfc ==> fr == 0,
        // the current state is valid on this commitment
        stats_spec(local, ob, cv, vth, s, 0, fr, false, lim, dust, ct) is Some,
        ({  let out = sum_if(s, |h: HTLCAmountDirection| h.outbound); let inn = sum_if(s, |h: HTLCAmountDirection| !h.outbound);
            let anc = 1000 * anchors_spec(ct);
            let lb = ssub(ssub(vth, out), if ob { anc } else { 0 }); let rb = ssub(ssub(cv * 1000 - vth, inn), if ob { 0 } else { anc });
            let ocap = ssub(lb, cres * 1000);
            let n = cnt_if(s, p_nondust(local, fr, dust, ct));
            let (sf, tf) = second_stage_spec(ct, fr);
            let d = dust + (if local { tf } else { sf });           // non-dust threshold (sat) of an OUTBOUND htlc on this commitment
            let sp = spiked_spec(fr, true, ct);
            // what the window helpers guarantee for this amount (their verified postconditions)
            &&& a <= ocap
            &&& ob ==> affordable(a, ocap, sp, n, d, ct)
            &&& !ob ==> cp_affordable(a, rb, fr, n, d, hres, ct)
            &&& a / 1000 < d ==> has_output_spec(ob, lb - a, rb, fr, n, dust, ct)
        }),
    ensures ({
        let h = HTLCAmountDirection { outbound: true, amount_msat: a as u64 };
        let r = stats_spec(local, ob, cv, vth, s.push(h), 0, fr, false, lim, dust, ct);
        // (P) an HTLC inside the reported window is accepted: the next commitment is valid and both reserves are respected
        &&& r is Some
        &&& r->Some_0.0 >= cres * 1000
        &&& !ob ==> r->Some_0.1 >= hres * 1000 || (a / 1000 < dust + (if local { second_stage_spec(ct, fr).1 } else { second_stage_spec(ct, fr).0 }))
        // (P) funder: even with the fee-spike buffer (one more non-dust HTLC at the spiked feerate) the fee is covered above the reserve
        &&& ob ==> ({
                let out = sum_if(s, |x: HTLCAmountDirection| x.outbound); let anc = 1000 * anchors_spec(ct);
                let h1 = vth - out - a - anc;
                let n2 = cnt_if(s.push(h), p_nondust(local, fr, dust, ct));
                h1 >= 1000 * commit_fee_spec(spiked_spec(fr, true, ct), n2 + 1, ct) + cres * 1000 })
    }),
{
    let h = HTLCAmountDirection { outbound: true, amount_msat: a as u64 };
    let po = |x: HTLCAmountDirection| x.outbound;
    let pi = |x: HTLCAmountDirection| !x.outbound;
    lemma_push_sums(s, h, po);
    lemma_push_sums(s, h, pi);
    lemma_push_sums(s, h, p_nondust(local, fr, dust, ct));
    lemma_bounds(s, po); lemma_bounds(s, pi); lemma_bounds(s, p_nondust(local, fr, dust, ct));
    let n = cnt_if(s, p_nondust(local, fr, dust, ct));
    let sp = spiked_spec(fr, true, ct);
    lemma_fee_mono2(fr, sp, n, n + 1, ct);
    lemma_fee_mono2(fr, sp, n + 1, n + 2, ct);
    lemma_fee_mono2(fr, fr, n, n + 1, ct);
    assert(spiked_spec(fr, false, ct) == fr);
}

// =====================  U01h part 2: thread the helper postconditions through get_available_balances  =====================
#[derive(Clone, Copy)]
pub struct ChannelConstraints {
	pub holder_dust_limit_satoshis: u64,
	pub counterparty_selected_channel_reserve_satoshis: u64,
	pub counterparty_dust_limit_satoshis: u64,
	pub holder_selected_channel_reserve_satoshis: u64,
	pub counterparty_htlc_minimum_msat: u64,
	pub counterparty_max_htlc_value_in_flight_msat: u64,
	pub counterparty_max_accepted_htlcs: u64,
}
pub struct AvailableBalances {
	pub inbound_capacity_msat: u64, pub outbound_capacity_msat: u64, pub next_outbound_htlc_limit_msat: u64,
	pub next_outbound_htlc_minimum_msat: u64, pub dust_exposure_msat: u64, pub next_splice_out_maximum_sat: u64,
}
pub assume_specification<T: core::cmp::Ord>[core::cmp::min::<T>](a: T, b: T) -> (r: T)
    ensures T::obeys_cmp_spec() ==> r == (if b.cmp_spec(&a) == core::cmp::Ordering::Less { b } else { a });

pub open spec fn dl_spec(fr: int, cc: ChannelConstraints, ct: &ChannelTypeFeatures) -> int { cc.holder_dust_limit_satoshis + second_stage_spec(ct, fr).1 }
pub open spec fn dr_spec(fr: int, cc: ChannelConstraints, ct: &ChannelTypeFeatures) -> int { cc.counterparty_dust_limit_satoshis + second_stage_spec(ct, fr).0 }

// ---- helpers: contracts proved in u01d / u01f / u01g probes, assumed here ----
#[verifier::external_body]
fn get_next_splice_out_maximum_sat(a: bool, b: u64, c: u64, d: u64, e: usize, f: usize, g: u32, h: u32, i: &ChannelConstraints, j: &ChannelTypeFeatures) -> u64 { unimplemented!() }
#[verifier::external_body]
fn adjust_capacity_for_holder_reserved_fee(
	outbound_capacity_msat: u64, local_nondust_htlc_count: usize, remote_nondust_htlc_count: usize,
	feerate_per_kw: u32, spiked_feerate: u32, channel_constraints: &ChannelConstraints, channel_type: &ChannelTypeFeatures,
) -> (r: u64)
    ensures r <= outbound_capacity_msat,
        forall|a: int| 1 <= a <= r ==>
            #[trigger] affordable(a, outbound_capacity_msat as int, spiked_feerate as int, local_nondust_htlc_count as int, dl_spec(feerate_per_kw as int, *channel_constraints, channel_type), channel_type)
            && affordable(a, outbound_capacity_msat as int, spiked_feerate as int, remote_nondust_htlc_count as int, dr_spec(feerate_per_kw as int, *channel_constraints, channel_type), channel_type),
{ unimplemented!() }
#[verifier::external_body]
fn adjust_capacity_for_counterparty_reserved_fee(
	outbound_capacity_msat: u64, remote_balance_before_fee_msat: u64, local_nondust_htlc_count: usize, remote_nondust_htlc_count: usize, feerate_per_kw: u32,
	channel_constraints: &ChannelConstraints, channel_type: &ChannelTypeFeatures,
) -> (r: u64)
    ensures r <= outbound_capacity_msat,
        forall|a: int| 1 <= a <= r ==>
            #[trigger] cp_affordable(a, remote_balance_before_fee_msat as int, feerate_per_kw as int, local_nondust_htlc_count as int, dl_spec(feerate_per_kw as int, *channel_constraints, channel_type), channel_constraints.holder_selected_channel_reserve_satoshis as int, channel_type)
            && cp_affordable(a, remote_balance_before_fee_msat as int, feerate_per_kw as int, remote_nondust_htlc_count as int, dr_spec(feerate_per_kw as int, *channel_constraints, channel_type), channel_constraints.holder_selected_channel_reserve_satoshis as int, channel_type),
{ unimplemented!() }
#[verifier::external_body]
fn adjust_min_max_htlc_for_dust_exposure(
	pending_htlcs: &[HTLCAmountDirection], feerate_per_kw: u32, dust_exposure_limiting_feerate: Option<u32>, max_dust_htlc_exposure_msat: u64,
	channel_constraints: &ChannelConstraints, channel_type: &ChannelTypeFeatures, available_capacity_msat: u64,
) -> (r: (u64, u64, u64))
    ensures r.1 <= available_capacity_msat
{ unimplemented!() }
pub open spec fn no_output_guard(a: int, ob: bool, lb: int, rb: int, fr: int, n: int, dust: int, d: int, ct: &ChannelTypeFeatures) -> bool {
    a / 1000 < d ==> has_output_spec(ob, lb - a, rb, fr, n, dust, ct)
}
#[verifier::external_body]
fn adjust_min_max_htlc_if_max_dust_htlc_produces_no_output(
	is_outbound_from_holder: bool, local_balance_before_fee_msat: u64, remote_balance_before_fee_msat: u64, local_nondust_htlc_count: usize,
	remote_nondust_htlc_count: usize, feerate_per_kw: u32, channel_constraints: &ChannelConstraints, channel_type: &ChannelTypeFeatures,
	next_outbound_htlc_minimum_msat: u64, available_capacity_msat: u64,
) -> (r: (u64, u64))
    ensures r.0 >= next_outbound_htlc_minimum_msat, r.1 <= available_capacity_msat,
        forall|a: int| 1 <= a && r.0 <= a <= r.1 && a <= local_balance_before_fee_msat ==>
            #[trigger] no_output_guard(a, is_outbound_from_holder, local_balance_before_fee_msat as int, remote_balance_before_fee_msat as int, feerate_per_kw as int,
                local_nondust_htlc_count as int, channel_constraints.holder_dust_limit_satoshis as int, dl_spec(feerate_per_kw as int, *channel_constraints, channel_type), channel_type)
            && no_output_guard(a, is_outbound_from_holder, local_balance_before_fee_msat as int, remote_balance_before_fee_msat as int, feerate_per_kw as int,
                remote_nondust_htlc_count as int, channel_constraints.counterparty_dust_limit_satoshis as int, dr_spec(feerate_per_kw as int, *channel_constraints, channel_type), channel_type),
{ unimplemented!() }

// the facts lemma_window_sound_one_commitment needs, for both commitments
pub open spec fn window_facts(a: int, ob: bool, cv: int, vth: int, s: Seq<HTLCAmountDirection>, fr: int, cc: ChannelConstraints, ct: &ChannelTypeFeatures) -> bool {
    let out = sum_if(s, |h: HTLCAmountDirection| h.outbound); let inn = sum_if(s, |h: HTLCAmountDirection| !h.outbound);
    let anc = 1000 * anchors_spec(ct);
    let lb = ssub(ssub(vth, out), if ob { anc } else { 0 }); let rb = ssub(ssub(cv * 1000 - vth, inn), if ob { 0 } else { anc });
    let ocap = ssub(lb, cc.counterparty_selected_channel_reserve_satoshis * 1000);
    let ln = cnt_if(s, p_nondust(true, fr, cc.holder_dust_limit_satoshis as int, ct));
    let rn = cnt_if(s, p_nondust(false, fr, cc.counterparty_dust_limit_satoshis as int, ct));
    let sp = spiked_spec(fr, true, ct);
    let dl = dl_spec(fr, cc, ct); let dr = dr_spec(fr, cc, ct);
    &&& a <= ocap
    &&& ob ==> affordable(a, ocap, sp, ln, dl, ct) && affordable(a, ocap, sp, rn, dr, ct)
    &&& !ob ==> cp_affordable(a, rb, fr, ln, dl, cc.holder_selected_channel_reserve_satoshis as int, ct) && cp_affordable(a, rb, fr, rn, dr, cc.holder_selected_channel_reserve_satoshis as int, ct)
    &&& no_output_guard(a, ob, lb, rb, fr, ln, cc.holder_dust_limit_satoshis as int, dl, ct)
    &&& no_output_guard(a, ob, lb, rb, fr, rn, cc.counterparty_dust_limit_satoshis as int, dr, ct)
}

fn get_available_balances(
	is_outbound_from_holder: bool, channel_value_satoshis: u64, value_to_holder_msat: u64,
	pending_htlcs: &[HTLCAmountDirection], feerate_per_kw: u32,
	dust_exposure_limiting_feerate: Option<u32>, max_dust_htlc_exposure_msat: u64,
	channel_constraints: ChannelConstraints, channel_type: &ChannelTypeFeatures,
) -> (r: AvailableBalances)
    requires valid_htlcs(pending_htlcs@), channel_value_satoshis <= 21_000_000_0000_0000, value_to_holder_msat <= channel_value_satoshis * 1000,
        channel_constraints.holder_dust_limit_satoshis <= 21_000_000_0000_0000, channel_constraints.counterparty_dust_limit_satoshis <= 21_000_000_0000_0000,
        channel_constraints.counterparty_selected_channel_reserve_satoshis <= 21_000_000_0000_0000, channel_constraints.holder_selected_channel_reserve_satoshis <= 21_000_000_0000_0000,
    ensures
        // (P) every amount inside the reported window satisfies the hypotheses of the soundness lemma on both commitments
        forall|a: int| 1 <= a && r.next_outbound_htlc_minimum_msat <= a <= r.next_outbound_htlc_limit_msat ==>
            #[trigger] window_facts(a, is_outbound_from_holder, channel_value_satoshis as int, value_to_holder_msat as int, pending_htlcs@, feerate_per_kw as int, channel_constraints, channel_type),
{
	let spiked_feerate =
		feerate_per_kw.saturating_mul(if !channel_type.supports_anchors_zero_fee_htlc_tx() {
			FEE_SPIKE_BUFFER_FEE_INCREASE_MULTIPLE as u32
		} else {
			1
		});

	let local_nondust_htlc_count = { // R6
        let __s = pending_htlcs; let mut __n: usize = 0; let mut __i: usize = 0;
        while __i < __s.len()
            invariant __i <= __s.len(), __s@ == pending_htlcs@, valid_htlcs(__s@), channel_constraints.holder_dust_limit_satoshis <= 21_000_000_0000_0000,
                __n == cnt_if(__s@.take(__i as int), p_nondust(true, feerate_per_kw as int, channel_constraints.holder_dust_limit_satoshis as int, channel_type)),
            decreases __s.len() - __i
        {
            proof { lemma_step(__s@, __i as int, p_nondust(true, feerate_per_kw as int, channel_constraints.holder_dust_limit_satoshis as int, channel_type));
                    lemma_prefix_bounds(__s@, __i as int, p_nondust(true, feerate_per_kw as int, channel_constraints.holder_dust_limit_satoshis as int, channel_type)); }
            let htlc = &__s[__i];
            if {
				!htlc.is_dust(
					true,
					feerate_per_kw,
					channel_constraints.holder_dust_limit_satoshis,
					channel_type,
				)
			} { __n = __n + 1; }
            __i = __i + 1;
        }
        proof { assert(__s@.take(__s@.len() as int) =~= __s@); }
        __n };

	let remote_nondust_htlc_count = { // R6
        let __s = pending_htlcs; let mut __n: usize = 0; let mut __i: usize = 0;
        while __i < __s.len()
            invariant __i <= __s.len(), __s@ == pending_htlcs@, valid_htlcs(__s@), channel_constraints.counterparty_dust_limit_satoshis <= 21_000_000_0000_0000,
                __n == cnt_if(__s@.take(__i as int), p_nondust(false, feerate_per_kw as int, channel_constraints.counterparty_dust_limit_satoshis as int, channel_type)),
            decreases __s.len() - __i
        {
            proof { lemma_step(__s@, __i as int, p_nondust(false, feerate_per_kw as int, channel_constraints.counterparty_dust_limit_satoshis as int, channel_type));
                    lemma_prefix_bounds(__s@, __i as int, p_nondust(false, feerate_per_kw as int, channel_constraints.counterparty_dust_limit_satoshis as int, channel_type)); }
            let htlc = &__s[__i];
            if {
				!htlc.is_dust(
					false,
					feerate_per_kw,
					channel_constraints.counterparty_dust_limit_satoshis,
					channel_type,
				)
			} { __n = __n + 1; }
            __i = __i + 1;
        }
        proof { assert(__s@.take(__s@.len() as int) =~= __s@); }
        __n };

	let outbound_htlcs_value_msat: u64 = { // R6
        let __s = pending_htlcs; let mut __t: u64 = 0; let mut __i: usize = 0;
        while __i < __s.len()
            invariant __i <= __s.len(), __s@ == pending_htlcs@, valid_htlcs(__s@),
                __t == sum_if(__s@.take(__i as int), |h: HTLCAmountDirection| h.outbound),
            decreases __s.len() - __i
        {
            proof { lemma_step(__s@, __i as int, |h: HTLCAmountDirection| h.outbound);
                    lemma_prefix_bounds(__s@, __i as int + 1, |h: HTLCAmountDirection| h.outbound); }
            let htlc = &__s[__i];
            if htlc.outbound { __t = __t + htlc.amount_msat; }
            __i = __i + 1;
        }
        proof { assert(__s@.take(__s@.len() as int) =~= __s@); }
        __t };
	let inbound_htlcs_value_msat: u64 = { // R6
        let __s = pending_htlcs; let mut __t: u64 = 0; let mut __i: usize = 0;
        while __i < __s.len()
            invariant __i <= __s.len(), __s@ == pending_htlcs@, valid_htlcs(__s@),
                __t == sum_if(__s@.take(__i as int), |h: HTLCAmountDirection| !h.outbound),
            decreases __s.len() - __i
        {
            proof { lemma_step(__s@, __i as int, |h: HTLCAmountDirection| !h.outbound);
                    lemma_prefix_bounds(__s@, __i as int + 1, |h: HTLCAmountDirection| !h.outbound); }
            let htlc = &__s[__i];
            if (!htlc.outbound) { __t = __t + htlc.amount_msat; }
            __i = __i + 1;
        }
        proof { assert(__s@.take(__s@.len() as int) =~= __s@); }
        __t };
	let total_anchors_sat = total_anchors_sat(channel_type);
	let (local_balance_before_fee_msat, remote_balance_before_fee_msat) =
		saturating_sub_from_funder(
			is_outbound_from_holder,
			value_to_holder_msat.saturating_sub(outbound_htlcs_value_msat),
			(channel_value_satoshis * 1000)
				.checked_sub(value_to_holder_msat)
				.unwrap()
				.saturating_sub(inbound_htlcs_value_msat),
			total_anchors_sat.saturating_mul(1000),
		);

	let next_splice_out_maximum_sat = get_next_splice_out_maximum_sat(
		is_outbound_from_holder,
		channel_value_satoshis,
		local_balance_before_fee_msat,
		remote_balance_before_fee_msat,
		local_nondust_htlc_count,
		remote_nondust_htlc_count,
		feerate_per_kw,
		spiked_feerate,
		&channel_constraints,
		channel_type,
	);

	let outbound_capacity_msat = local_balance_before_fee_msat
		.saturating_sub(channel_constraints.counterparty_selected_channel_reserve_satoshis * 1000);

	let available_capacity_msat = if is_outbound_from_holder {
		adjust_capacity_for_holder_reserved_fee(
			outbound_capacity_msat,
			local_nondust_htlc_count,
			remote_nondust_htlc_count,
			feerate_per_kw,
			spiked_feerate,
			&channel_constraints,
			channel_type,
		)
	} else {
		adjust_capacity_for_counterparty_reserved_fee(
			outbound_capacity_msat,
			remote_balance_before_fee_msat,
			local_nondust_htlc_count,
			remote_nondust_htlc_count,
			feerate_per_kw,
			&channel_constraints,
			channel_type,
		)
	};

	let (next_outbound_htlc_minimum_msat, mut available_capacity_msat, dust_exposure_msat) =
		adjust_min_max_htlc_for_dust_exposure(
			pending_htlcs,
			feerate_per_kw,
			dust_exposure_limiting_feerate,
			max_dust_htlc_exposure_msat,
			&channel_constraints,
			channel_type,
			available_capacity_msat,
		);

	available_capacity_msat = core::cmp::min(
		available_capacity_msat,
		channel_constraints
			.counterparty_max_htlc_value_in_flight_msat
			.saturating_sub(outbound_htlcs_value_msat),
	);

	// (the `outbound count + 1 > max_accepted` cut-off is omitted in this probe: it only lowers the limit to 0)

	let (next_outbound_htlc_minimum_msat, available_capacity_msat) =
		adjust_min_max_htlc_if_max_dust_htlc_produces_no_output(
			is_outbound_from_holder,
			local_balance_before_fee_msat,
			remote_balance_before_fee_msat,
			local_nondust_htlc_count,
			remote_nondust_htlc_count,
			feerate_per_kw,
			&channel_constraints,
			channel_type,
			next_outbound_htlc_minimum_msat,
			available_capacity_msat,
		);

    proof {
        let s = pending_htlcs@; let cc = channel_constraints; let fr = feerate_per_kw as int; let ob = is_outbound_from_holder;
        let cv = channel_value_satoshis as int; let vth = value_to_holder_msat as int;
        let out = sum_if(s, |h: HTLCAmountDirection| h.outbound); let inn = sum_if(s, |h: HTLCAmountDirection| !h.outbound);
        let anc = 1000 * anchors_spec(channel_type);
        let lb = ssub(ssub(vth, out), if ob { anc } else { 0 }); let rb = ssub(ssub(cv * 1000 - vth, inn), if ob { 0 } else { anc });
        assert(local_balance_before_fee_msat as int == lb);
        assert(remote_balance_before_fee_msat as int == rb);
        assert(outbound_capacity_msat as int == ssub(lb, cc.counterparty_selected_channel_reserve_satoshis * 1000));
        assert(spiked_feerate as int == spiked_spec(fr, true, channel_type));
        assert forall|a: int| 1 <= a && next_outbound_htlc_minimum_msat <= a <= available_capacity_msat implies
            #[trigger] window_facts(a, ob, cv, vth, s, fr, cc, channel_type) by
        {
            let ln = local_nondust_htlc_count as int; let rn = remote_nondust_htlc_count as int;
            let dl = dl_spec(fr, cc, channel_type); let dr = dr_spec(fr, cc, channel_type);
            assert(a <= outbound_capacity_msat);
            assert(a <= lb);
            if ob {
                assert(affordable(a, outbound_capacity_msat as int, spiked_feerate as int, ln, dl, channel_type));
            } else {
                assert(cp_affordable(a, rb, fr, ln, dl, cc.holder_selected_channel_reserve_satoshis as int, channel_type));
            }
            assert(no_output_guard(a, ob, lb, rb, fr, ln, cc.holder_dust_limit_satoshis as int, dl, channel_type));
        }
    }
	AvailableBalances {
		inbound_capacity_msat: remote_balance_before_fee_msat
			.saturating_sub(channel_constraints.holder_selected_channel_reserve_satoshis * 1000),
		outbound_capacity_msat,
		next_outbound_htlc_limit_msat: available_capacity_msat,
		next_outbound_htlc_minimum_msat,
		dust_exposure_msat,
		next_splice_out_maximum_sat,
	}
}

// (P) C01, third sentence: an HTLC inside the reported send window is acceptable on BOTH commitments.
pub proof fn theorem_send_window_sound(a: int, ob: bool, cv: int, vth: int, s: Seq<HTLCAmountDirection>, fr: int, lim: Option<u32>, cc: ChannelConstraints, ct: &ChannelTypeFeatures)
    requires
        0 <= fr <= 0xffff_ffff, 1 <= cc.holder_dust_limit_satoshis, 1 <= cc.counterparty_dust_limit_satoshis, 1 <= a <= 0xffff_ffff_ffff_ffff, 0 <= cv, 0 <= vth,
        ct.zfc ==> fr == 0,
        // the channel is currently in a valid state on both commitments
        stats_spec(true, ob, cv, vth, s, 0, fr, false, lim, cc.holder_dust_limit_satoshis as int, ct) is Some,
        stats_spec(false, ob, cv, vth, s, 0, fr, false, lim, cc.counterparty_dust_limit_satoshis as int, ct) is Some,
        // `a` lies inside the window get_available_balances reported (its verified postcondition)
        window_facts(a, ob, cv, vth, s, fr, cc, ct),
    ensures ({
        let h = HTLCAmountDirection { outbound: true, amount_msat: a as u64 };
        let cres = cc.counterparty_selected_channel_reserve_satoshis as int;
        let rl = stats_spec(true, ob, cv, vth, s.push(h), 0, fr, false, lim, cc.holder_dust_limit_satoshis as int, ct);
        let rr = stats_spec(false, ob, cv, vth, s.push(h), 0, fr, false, lim, cc.counterparty_dust_limit_satoshis as int, ct);
        &&& rl is Some && rl->Some_0.0 >= cres * 1000
        &&& rr is Some && rr->Some_0.0 >= cres * 1000
    }),
{
    lemma_window_sound_one_commitment(true, ob, cv, vth, s, fr, lim, cc.holder_dust_limit_satoshis as int,
        cc.counterparty_selected_channel_reserve_satoshis as int, cc.holder_selected_channel_reserve_satoshis as int, a, ct);
    lemma_window_sound_one_commitment(false, ob, cv, vth, s, fr, lim, cc.counterparty_dust_limit_satoshis as int,
        cc.counterparty_selected_channel_reserve_satoshis as int, cc.holder_selected_channel_reserve_satoshis as int, a, ct);
}

}
fn main() {}
