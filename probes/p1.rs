use vstd::prelude::*;
verus! {

pub struct CT { pub anchors: bool, pub zfc: bool }
impl CT {
    pub fn supports_anchors_zero_fee_htlc_tx(&self) -> (r: bool) ensures r == self.anchors { self.anchors }
    pub fn supports_anchor_zero_fee_commitments(&self) -> (r: bool) ensures r == self.zfc { self.zfc }
}

fn checked_sub_from_funder(
	is_outbound_from_holder: bool, value_to_holder: u64, value_to_counterparty: u64,
	value_to_subtract: u64,
) -> Result<(u64, u64), ()> {
	if is_outbound_from_holder {
		Ok((value_to_holder.checked_sub(value_to_subtract).ok_or(())?, value_to_counterparty))
	} else {
		Ok((value_to_holder, value_to_counterparty.checked_sub(value_to_subtract).ok_or(())?))
	}
}

fn saturating_sub_from_funder(
	is_outbound_from_holder: bool, value_to_holder: u64, value_to_counterparty: u64,
	value_to_subtract: u64,
) -> (u64, u64) {
	if is_outbound_from_holder {
		(value_to_holder.saturating_sub(value_to_subtract), value_to_counterparty)
	} else {
		(value_to_holder, value_to_counterparty.saturating_sub(value_to_subtract))
	}
}

fn get_dust_buffer_feerate(feerate_per_kw: u32) -> u32 {
	let feerate_plus_quarter = feerate_per_kw.checked_mul(1250).map(|v| v / 1000);
	core::cmp::max(feerate_per_kw.saturating_add(2530), feerate_plus_quarter.unwrap_or(u32::MAX))
}

}
fn main() {}
