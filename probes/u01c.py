import re
probe = open('/verif/probes/u01c_commitment_stats.rs').read()
def between(a, b):
    i = probe.index(a); j = probe.index(b, i); return probe[i:j]
specs_1 = between('// ---------------- specs ----------------', '// ---------------- chan_utils (verbatim)')
# drop the HTLCAmountDirection struct from specs (extracted instead)
specs_1 = specs_1.replace('pub struct HTLCAmountDirection { pub outbound: bool, pub amount_msat: u64 }\n', '//@extract lightning/src/sign/tx_builder.rs :: struct HTLCAmountDirection\n//@end\n')
has_output_spec = between('pub open spec fn has_output_spec', 'fn has_output(')
htlc_fees_spec = between('pub open spec fn htlc_fees_spec', 'pub fn htlc_tx_fees_sat')
dust_buffer_spec = between('pub open spec fn dust_buffer_spec', 'fn get_dust_buffer_feerate')
preds = between('pub open spec fn valid_htlcs', 'fn commit_plus_htlc_tx_fees_msat')
dust_exposure_spec = between('pub open spec fn dust_exposure_spec', 'fn get_dust_exposure_stats')
spiked_spec = between('pub open spec fn spiked_spec', 'fn get_next_commitment_stats')

T = '''//! unit: u01c
//! properties: C01
//! note: BOLT-3 fee formulas (chan_utils) and next-commitment statistics (tx_builder): msat-exact conservation for HTLC lists of any length
//! trusted: assume_specification for core::cmp::max (std definition); ChannelTypeFeatures is a two-boolean stub whose supports_* methods are external_body pure functions of those booleans
//! trusted: rule R6 rewrites iterator chains (.iter().filter(..).count(), .iter().filter_map(|h| (C).then_some(V)).sum()) into index loops carrying the closure body verbatim; sum() becomes checked `+` (overflow obligation, stronger than release semantics)
//! assume: channel value and dust limits <= 21e14 sat; at most 2000 pending HTLCs; sum of pending HTLC amounts <= 2.1e18 msat; addl_nondust_htlc_count <= 2
//! assume: feerate_per_kw == 0 for zero-fee-commitment channels (LDK's debug_assert, kept as an obligation at call sites)
use vstd::prelude::*;
verus! {
use vstd::std_specs::cmp::*;
use core::cmp;
pub assume_specification<T: core::cmp::Ord>[core::cmp::max::<T>](a: T, b: T) -> (r: T)
    ensures T::obeys_cmp_spec() ==> r == (if b.cmp_spec(&a) == core::cmp::Ordering::Less { a } else { b });

// ---------------- env (trusted) ----------------
pub struct ChannelTypeFeatures { pub anchors: bool, pub zfc: bool }
impl ChannelTypeFeatures {
    #[verifier::external_body]
    pub fn supports_anchors_zero_fee_htlc_tx(&self) -> (r: bool) ensures r == self.anchors { self.anchors }
    #[verifier::external_body]
    pub fn supports_anchor_zero_fee_commitments(&self) -> (r: bool) ensures r == self.zfc { self.zfc }
}
//@const lightning/src/ln/channel.rs ANCHOR_OUTPUT_VALUE_SATOSHI FEE_SPIKE_BUFFER_FEE_INCREASE_MULTIPLE
//@const lightning/src/ln/chan_utils.rs COMMITMENT_TX_WEIGHT_PER_HTLC

//@template R6count
    { // R6: $s.iter().filter(|$h| ..).count()
        let __s = $s; let mut __n: usize = 0; let mut __i: usize = 0;
        while __i < __s.len()
            invariant __i <= __s.len(), __s@ == $s@, valid_htlcs(__s@), #EXTRA#
                __n == cnt_if(__s@.take(__i as int), #PRED#),
            decreases __s.len() - __i
        {
            proof { lemma_step(__s@, __i as int, #PRED#);
                    lemma_prefix_bounds(__s@, __i as int, #PRED#); }
            let $h = &__s[__i];
            if $body { __n = __n + 1; }
            __i = __i + 1;
        }
        proof { assert(__s@.take(__s@.len() as int) =~= __s@); lemma_bounds($s@, #PRED#); }
        __n }
//@endtemplate
//@template R6sum
    { // R6: $s.iter().filter_map(|$h| ($c).then_some($v)).sum()
        let __s = $s; let mut __t: u64 = 0; let mut __i: usize = 0;
        while __i < __s.len()
            invariant __i <= __s.len(), __s@ == $s@, valid_htlcs(__s@), #EXTRA#
                __t == sum_if(__s@.take(__i as int), #PRED#),
            decreases __s.len() - __i
        {
            proof { lemma_step(__s@, __i as int, #PRED#);
                    lemma_prefix_bounds(__s@, __i as int + 1, #PRED#); }
            let $h = &__s[__i];
            if $c { __t = __t + $v; }
            __i = __i + 1;
        }
        proof { assert(__s@.take(__s@.len() as int) =~= __s@); lemma_bounds($s@, #PRED#); }
        __t }
//@endtemplate

''' + specs_1 + '''
// ---------------- chan_utils ----------------
//@extract lightning/src/ln/chan_utils.rs :: fn htlc_success_tx_weight
//@ret r
//@ensures A
    r == success_w(channel_type_features)
//@end
//@extract lightning/src/ln/chan_utils.rs :: fn htlc_timeout_tx_weight
//@ret r
//@ensures A
    r == timeout_w(channel_type_features)
//@end
//@extract lightning/src/ln/chan_utils.rs :: fn commitment_tx_base_weight
//@ret r
//@ensures A
    r == base_weight(channel_type_features)
//@end
//@extract lightning/src/ln/chan_utils.rs :: fn commit_tx_fee_sat
//@ret r
//@requires
    num_htlcs <= 100_000,
//@ensures P C01 commitment-fee-is-the-BOLT3-formula
    r == commit_fee_spec(feerate_per_kw as int, num_htlcs as int, channel_type_features),
    r <= 0xffff_ffff * 17_300,
//@at body_start
    proof {
        assert(feerate_per_kw as int * (base_weight(channel_type_features) + num_htlcs as int * 172) <= 0xffff_ffff * (1124 + 100_000 * 172)) by (nonlinear_arith)
            requires 0 <= feerate_per_kw <= 0xffff_ffff, 0 <= num_htlcs <= 100_000, 0 < base_weight(channel_type_features) <= 1124;
        assert(feerate_per_kw as int * (base_weight(channel_type_features) + num_htlcs as int * 172) >= 0) by (nonlinear_arith)
            requires 0 <= feerate_per_kw, 0 <= num_htlcs, 0 < base_weight(channel_type_features);
    }
//@mutant division_moved_inside
    (commitment_tx_base_weight(channel_type_features) + num_htlcs as u64 * COMMITMENT_TX_WEIGHT_PER_HTLC) / 1000
//@with
    ((commitment_tx_base_weight(channel_type_features) + num_htlcs as u64 * COMMITMENT_TX_WEIGHT_PER_HTLC) / 1000)
//@end
//@extract lightning/src/ln/chan_utils.rs :: fn second_stage_tx_fees_sat
//@ret r
//@ensures A
    (r.0 as int, r.1 as int) == second_stage_spec(channel_type, feerate_sat_per_1000_weight as int),
    r.0 <= 0xffff_ffff, r.1 <= 0xffff_ffff,
//@at body_start
    proof {
        assert(feerate_sat_per_1000_weight as int * 703 / 1000 <= 0xffff_ffff) by (nonlinear_arith) requires 0 <= feerate_sat_per_1000_weight <= 0xffff_ffff;
        assert(feerate_sat_per_1000_weight as int * 663 / 1000 <= 0xffff_ffff) by (nonlinear_arith) requires 0 <= feerate_sat_per_1000_weight <= 0xffff_ffff;
    }
//@end

// ---------------- tx_builder ----------------
impl HTLCAmountDirection {
//@extract lightning/src/sign/tx_builder.rs :: impl HTLCAmountDirection :: fn is_dust
//@ret r
//@requires
    broadcaster_dust_limit_satoshis <= 21_000_000_0000_0000,
//@ensures A
    r == is_dust_spec(*self, local, feerate_per_kw as int, broadcaster_dust_limit_satoshis as int, channel_type)
//@mutant dust_test_le
    self.amount_msat / 1000 < broadcaster_dust_limit_satoshis + htlc_tx_fee_sat
//@with
    self.amount_msat / 1000 <= broadcaster_dust_limit_satoshis + htlc_tx_fee_sat
//@end
}

//@extract lightning/src/sign/tx_builder.rs :: fn total_anchors_sat
//@ret r
//@ensures A
    r == anchors_spec(channel_type)
//@end

//@extract lightning/src/sign/tx_builder.rs :: fn checked_sub_from_funder
//@ret r
//@ensures P C01 exactly-the-funders-side-decreases
    r is Ok <==> (if is_outbound_from_holder { value_to_holder >= value_to_subtract } else { value_to_counterparty >= value_to_subtract }),
    r is Ok ==> (if is_outbound_from_holder {
            r->Ok_0.0 == value_to_holder - value_to_subtract && r->Ok_0.1 == value_to_counterparty
        } else {
            r->Ok_0.0 == value_to_holder && r->Ok_0.1 == value_to_counterparty - value_to_subtract }),
//@end

//@extract lightning/src/sign/tx_builder.rs :: fn saturating_sub_from_funder
//@ret r
//@ensures A
    r == (if is_outbound_from_holder {
        ((if value_to_holder >= value_to_subtract { (value_to_holder - value_to_subtract) as u64 } else { 0u64 }), value_to_counterparty)
      } else {
        (value_to_holder, (if value_to_counterparty >= value_to_subtract { (value_to_counterparty - value_to_subtract) as u64 } else { 0u64 })) })
//@end

''' + has_output_spec + '''
//@extract lightning/src/sign/tx_builder.rs :: fn has_output
//@ret r
//@requires
    nondust_htlc_count <= 100_000, broadcaster_dust_limit_satoshis <= 21_000_000_0000_0000,
//@ensures P C01 has-output-iff-not-all-below-dust
    r == has_output_spec(is_outbound_from_holder, holder_balance_before_fee_msat as int, counterparty_balance_before_fee_msat as int,
        feerate_per_kw as int, nondust_htlc_count as int, broadcaster_dust_limit_satoshis as int, channel_type)
//@end

''' + htlc_fees_spec + '''
//@extract lightning/src/ln/chan_utils.rs :: fn htlc_tx_fees_sat
//@ret r
//@requires
    num_accepted_htlcs <= 100_000, num_offered_htlcs <= 100_000,
//@ensures A
    r == htlc_fees_spec(feerate_per_kw as int, num_accepted_htlcs as int, num_offered_htlcs as int, channel_type_features),
    r <= 2 * 100_000 * 0xffff_ffff,
//@at before `num_accepted_htlcs as u64 * htlc_success_tx_fee_sat`
    proof {
        assert(num_accepted_htlcs as int * htlc_success_tx_fee_sat as int <= 100_000 * 0xffff_ffff) by (nonlinear_arith)
            requires 0 <= num_accepted_htlcs <= 100_000, 0 <= htlc_success_tx_fee_sat <= 0xffff_ffff;
        assert(num_offered_htlcs as int * htlc_timeout_tx_fee_sat as int <= 100_000 * 0xffff_ffff) by (nonlinear_arith)
            requires 0 <= num_offered_htlcs <= 100_000, 0 <= htlc_timeout_tx_fee_sat <= 0xffff_ffff;
    }
//@end

''' + dust_buffer_spec + '''
//@extract lightning/src/sign/tx_builder.rs :: fn get_dust_buffer_feerate
//@ret r
//@ensures A
    r == dust_buffer_spec(feerate_per_kw as int), r >= feerate_per_kw
//@rw R9
    .map(|$v:ident| $body)
//@with
    .map(|$v: u32| -> (o: u32) ensures o == $v / 1000 { $body })
//@end

''' + preds + '''
//@extract lightning/src/sign/tx_builder.rs :: fn commit_plus_htlc_tx_fees_msat
//@ret r
//@requires
    valid_htlcs(next_commitment_htlcs@), broadcaster_dust_limit_satoshis <= 21_000_000_0000_0000,
//@ensures A
    (r.0 as int, r.1 as int) == cphf_spec(local, next_commitment_htlcs@, dust_buffer_feerate as int, feerate as int, broadcaster_dust_limit_satoshis as int, channel_type),
    r.0 <= 1_000_000_000_000_000_000, r.1 <= 1_000_000_000_000_000_000,
//@rw nth=1 R6
    $s:ident.iter().filter(|$h:ident| $body).count()
//@with_template R6count
    PRED = p_accepted_nondust(local, dust_buffer_feerate as int, broadcaster_dust_limit_satoshis as int, channel_type)
    EXTRA = broadcaster_dust_limit_satoshis <= 21_000_000_0000_0000,
//@rw nth=1 R6
    $s:ident.iter().filter(|$h:ident| $body).count()
//@with_template R6count
    PRED = p_offered_nondust(local, dust_buffer_feerate as int, broadcaster_dust_limit_satoshis as int, channel_type)
    EXTRA = broadcaster_dust_limit_satoshis <= 21_000_000_0000_0000,
//@end

''' + dust_exposure_spec + '''
//@extract lightning/src/sign/tx_builder.rs :: fn get_dust_exposure_stats
//@ret r
//@requires
    valid_htlcs(commitment_htlcs@), broadcaster_dust_limit_satoshis <= 21_000_000_0000_0000,
    channel_type.zfc ==> feerate_per_kw == 0,
//@ensures P C01 dust-exposure-is-the-sum-of-HTLCs-dust-at-the-buffered-feerate-plus-excess-fees
    ({ let sp = dust_exposure_spec(local, commitment_htlcs@, feerate_per_kw as int, dust_exposure_limiting_feerate, broadcaster_dust_limit_satoshis as int, channel_type);
        r.0 as int == sp.0 && (r.1 is Some <==> sp.1 is Some) && (r.1 is Some ==> r.1->Some_0 as int == sp.1->Some_0) }),
//@rw nth=1 R6
    $s:ident.iter().filter_map(|$h:ident| { $c.then_some($v) }).sum()
//@with_template R6sum
    PRED = p_dust(local, dust_buffer_feerate as int, broadcaster_dust_limit_satoshis as int, channel_type)
    EXTRA = broadcaster_dust_limit_satoshis <= 21_000_000_0000_0000,
//@end

//@extract lightning/src/sign/tx_builder.rs :: struct NextCommitmentStats
//@end

''' + spiked_spec + '''
//@extract lightning/src/sign/tx_builder.rs :: fn get_next_commitment_stats
//@ret r
//@requires
    valid_htlcs(next_commitment_htlcs@),
    broadcaster_dust_limit_satoshis <= 21_000_000_0000_0000,
    channel_value_satoshis <= 21_000_000_0000_0000,
    addl_nondust_htlc_count <= 2,
    channel_type.zfc ==> feerate_per_kw == 0,
//@ensures P C01 conservation-every-pending-HTLC-exactly-once-funder-pays-anchors-and-fee
    r is Ok ==> ({
        let st = r->Ok_0;
        let sp = spiked_spec(feerate_per_kw as int, assume_fee_spike, channel_type);
        let n = cnt_if(next_commitment_htlcs@, p_nondust(local, feerate_per_kw as int, broadcaster_dust_limit_satoshis as int, channel_type)) + addl_nondust_htlc_count;
        let fee = commit_fee_spec(sp, n, channel_type);
        &&& st.holder_balance_msat + st.counterparty_balance_msat + total(next_commitment_htlcs@)
              + 1000 * anchors_spec(channel_type) + 1000 * fee == 1000 * channel_value_satoshis
        // non-funder pays nothing but its own HTLCs
        &&& is_outbound_from_holder ==> st.counterparty_balance_msat == channel_value_satoshis * 1000 - value_to_holder_msat
                - sum_if(next_commitment_htlcs@, |h: HTLCAmountDirection| !h.outbound)
        &&& !is_outbound_from_holder ==> st.holder_balance_msat == value_to_holder_msat
                - sum_if(next_commitment_htlcs@, |h: HTLCAmountDirection| h.outbound)
        &&& st.dust_exposure_msat as int == dust_exposure_spec(local, next_commitment_htlcs@, feerate_per_kw as int, dust_exposure_limiting_feerate, broadcaster_dust_limit_satoshis as int, channel_type).0
    }),
//@rw nth=1 R6
    $s:ident.iter().filter_map(|$h:ident| $c.then_some($v)).sum()
//@with_template R6sum
    PRED = |h: HTLCAmountDirection| h.outbound
    EXTRA =
//@rw nth=1 R6
    $s:ident.iter().filter_map(|$h:ident| $c.then_some($v)).sum()
//@with_template R6sum
    PRED = |h: HTLCAmountDirection| !h.outbound
    EXTRA =
//@rw nth=1 R6
    $s:ident.iter().filter(|$h:ident| $body).count()
//@with_template R6count
    PRED = p_nondust(local, spiked_feerate as int, broadcaster_dust_limit_satoshis as int, channel_type)
    EXTRA = broadcaster_dust_limit_satoshis <= 21_000_000_0000_0000,
//@rw nth=1 R6
    $s:ident.iter().filter(|$h:ident| $body).count()
//@with_template R6count
    PRED = p_nondust(local, feerate_per_kw as int, broadcaster_dust_limit_satoshis as int, channel_type)
    EXTRA = broadcaster_dust_limit_satoshis <= 21_000_000_0000_0000,
//@at before `let commit_tx_fee_sat = commit_tx_fee_sat(`
    proof { lemma_split(next_commitment_htlcs@); }
//@mutant fee_at_unspiked_feerate
    let commit_tx_fee_sat = commit_tx_fee_sat( spiked_feerate,
//@with
    let commit_tx_fee_sat = commit_tx_fee_sat( feerate_per_kw,
//@mutant anchors_charged_to_non_funder
    checked_sub_from_funder( is_outbound_from_holder, value_to_holder_after_htlcs_msat,
//@with
    checked_sub_from_funder( !is_outbound_from_holder, value_to_holder_after_htlcs_msat,
//@mutant inbound_htlcs_not_subtracted
    value_to_counterparty_msat.checked_sub(inbound_htlcs_value_msat)
//@with
    value_to_counterparty_msat.checked_sub(0)
//@end

}
fn main() {}
'''
open('/verif/units/u01c.rs', 'w').write(T)
