// PROBE U16: router::PaymentPath::update_value_and_recompute_fees (verbatim body; env stubs)
use vstd::prelude::*;
verus! {
#[derive(Clone, Copy)]
pub struct RoutingFees { pub base_msat: u32, pub proportional_millionths: u32 }
pub struct CandidateRouteHop { pub min: u64, pub f: RoutingFees }
impl CandidateRouteHop {
  #[verifier::external_body] pub fn htlc_minimum_msat(&self) -> (r: u64) ensures r == self.min { self.min }
  #[verifier::external_body] pub fn fees(&self) -> (r: RoutingFees) ensures r == self.f { self.f }
}
pub struct PathBuildingHop { pub candidate: CandidateRouteHop, pub fee_msat: u64, pub next_hops_fee_msat: u64, pub hop_use_fee_msat: u64, pub path_penalty_msat: u64 }
pub struct NodeFeatures {}
pub struct PaymentPath { pub hops: Vec<(PathBuildingHop, NodeFeatures)> }

pub open spec fn fees_spec(amt: int, f: RoutingFees) -> int { f.base_msat as int + amt * (f.proportional_millionths as int) / 1_000_000 }

pub fn compute_fees(amount_msat: u64, channel_fees: RoutingFees) -> (r: Option<u64>)
    ensures r is Some ==> r->Some_0 as int == fees_spec(amount_msat as int, channel_fees),
            r is None <==> (amount_msat as int * channel_fees.proportional_millionths as int > u64::MAX
                || fees_spec(amount_msat as int, channel_fees) > u64::MAX),
{
	amount_msat.checked_mul(channel_fees.proportional_millionths as u64)
		.and_then(|part: u64| -> (o: Option<u64>)
            ensures o == (if channel_fees.base_msat as int + part as int / 1_000_000 <= u64::MAX { Some((channel_fees.base_msat as int + part as int / 1_000_000) as u64) } else { None::<u64> })
            { (channel_fees.base_msat as u64).checked_add(part / 1_000_000) })
}

// amount carried over hop j = sum of fee_msat of hops j..len
pub open spec fn carried(hops: Seq<(PathBuildingHop, NodeFeatures)>, j: int) -> int
    decreases hops.len() - j
{
    if j >= hops.len() || j < 0 { 0 } else { hops[j].0.fee_msat as int + carried(hops, j + 1) }
}

pub open spec fn same_candidates(a: Seq<(PathBuildingHop, NodeFeatures)>, b: Seq<(PathBuildingHop, NodeFeatures)>) -> bool {
    a.len() == b.len() && forall|k: int| 0 <= k < a.len() ==> a[k].0.candidate == b[k].0.candidate
}

// (P) the property's sentence, per hop
pub open spec fn route_ok_from(hops: Seq<(PathBuildingHop, NodeFeatures)>, i: int) -> bool {
    &&& forall|j: int| i <= j < hops.len() ==> carried(hops, j) >= #[trigger] hops[j].0.candidate.min
    &&& forall|j: int| i <= j < hops.len() - 1 ==> (#[trigger] hops[j].0.fee_msat) as int >= fees_spec(carried(hops, j + 1), hops[j + 1].0.candidate.f)
}


pub open spec fn maxi(a: int, b: int) -> int { if a >= b { a } else { b } }
// amount entering hop i in the ideal computation
pub open spec fn tspec(h: Seq<(PathBuildingHop, NodeFeatures)>, value: int, i: int) -> int
    decreases h.len() - i
{
    if i >= h.len() - 1 { maxi(h[h.len() - 1].0.candidate.min as int, value) }
    else { maxi(h[i].0.candidate.min as int, tspec(h, value, i + 1) + fees_spec(tspec(h, value, i + 1), h[i + 1].0.candidate.f)) }
}
pub proof fn lemma_tspec_mono(h: Seq<(PathBuildingHop, NodeFeatures)>, value: int, i: int)
    requires 0 <= i < h.len(), value >= 0
    ensures tspec(h, value, i) >= value, i < h.len() - 1 ==> tspec(h, value, i) >= tspec(h, value, i + 1),
            forall|k: int| i <= k < h.len() ==> tspec(h, value, i) >= #[trigger] tspec(h, value, k)
    decreases h.len() - i
{
    if i < h.len() - 1 {
        lemma_tspec_mono(h, value, i + 1);
        let t = tspec(h, value, i + 1);
        assert(t * (h[i + 1].0.candidate.f.proportional_millionths as int) >= 0) by (nonlinear_arith) requires t >= 0, h[i + 1].0.candidate.f.proportional_millionths >= 0;
    }
}
pub proof fn lemma_carried_suffix(a: Seq<(PathBuildingHop, NodeFeatures)>, b: Seq<(PathBuildingHop, NodeFeatures)>, j: int)
    requires a.len() == b.len(), 0 <= j, forall|k: int| j <= k < a.len() ==> a[k].0.fee_msat == b[k].0.fee_msat
    ensures carried(a, j) == carried(b, j)
    decreases a.len() - j
{
    if j < a.len() { lemma_carried_suffix(a, b, j + 1); }
}
pub open spec fn fits(h: Seq<(PathBuildingHop, NodeFeatures)>, value: int) -> bool {
    &&& tspec(h, value, 0) <= 0x0fff_ffff_ffff_ffff
    &&& forall|k: int| 1 <= k < h.len() ==> (#[trigger] tspec(h, value, k)) * (h[k].0.candidate.f.proportional_millionths as int) <= 0x0fff_ffff_ffff_ffff
}

impl PaymentPath {
	fn update_value_and_recompute_fees(&mut self, value_msat: u64) -> (ret: u64)
        requires old(self).hops.len() >= 1, old(self).hops.len() <= 100,
            fits(old(self).hops@, value_msat as int),
            forall|k: int| 0 <= k < old(self).hops.len() ==> old(self).hops[k].0.path_penalty_msat <= 0x0fff_ffff_ffff_ffff,
        ensures
            same_candidates(final(self).hops@, old(self).hops@),
            route_ok_from(final(self).hops@, 0),
            ret == final(self).hops[final(self).hops.len() - 1].0.fee_msat,
            ret >= value_msat,
    {
		let mut extra_contribution_msat = 0;
		let mut total_fee_paid_msat = 0 as u64;
        let ghost n = self.hops.len() as int;
        let ghost h0 = self.hops@;
        let ghost v = value_msat as int;
        proof { lemma_tspec_mono(h0, v, 0); assert(v <= tspec(h0, v, 0)); }
		for i in iter: (0..self.hops.len()).rev()
            invariant
                self.hops.len() == n, n >= 1, n <= 100, h0.len() == n, v == value_msat, value_msat <= 0x0fff_ffff_ffff_ffff,
                iter.seq().len() == n,
                forall|j: int| 0 <= j < n ==> iter.seq()[j] == n - 1 - j,
                same_candidates(self.hops@, h0),
                fits(h0, v),
                forall|k: int| 0 <= k < n - iter.index@ ==> self.hops[k].0.path_penalty_msat <= 0x0fff_ffff_ffff_ffff,
                iter.index@ == 0 ==> total_fee_paid_msat == 0 && extra_contribution_msat == 0,
                iter.index@ >= 1 ==> ({
                    let p = n - iter.index@;
                    &&& route_ok_from(self.hops@, p)
                    &&& carried(self.hops@, p) == tspec(h0, v, p)
                    &&& extra_contribution_msat == self.hops[n - 1].0.fee_msat - value_msat
                    &&& extra_contribution_msat <= 0x0fff_ffff_ffff_ffff
                    &&& p >= 1 ==> (total_fee_paid_msat + value_msat + extra_contribution_msat == tspec(h0, v, p) + self.hops[p].0.hop_use_fee_msat
                                   && self.hops[p].0.hop_use_fee_msat == fees_spec(tspec(h0, v, p), h0[p].0.candidate.f))
                }),
        {
            let ghost pre = self.hops@;
            let ghost p_old = n - iter.index@;   // lowest processed so far (== i + 1)
            proof { assert(i == n - 1 - iter.index@); lemma_tspec_mono(h0, v, i as int); lemma_tspec_mono(h0, v, 0);
                    assert(tspec(h0, v, 0) >= tspec(h0, v, i as int));
                    if i < n - 1 {
                        assert(tspec(h0, v, i as int) >= tspec(h0, v, i as int + 1) + fees_spec(tspec(h0, v, i as int + 1), h0[i as int + 1].0.candidate.f));
                    }
            }
			let last_hop = i == self.hops.len() - 1;

			let mut cur_hop_fees_msat = 0;
			if !last_hop {
				cur_hop_fees_msat = self.hops.get(i + 1).unwrap().0.hop_use_fee_msat;
			}

			let cur_hop = &mut self.hops.get_mut(i).unwrap().0;
			cur_hop.next_hops_fee_msat = total_fee_paid_msat;
			cur_hop.path_penalty_msat += extra_contribution_msat;
			let mut cur_hop_transferred_amount_msat = total_fee_paid_msat + value_msat;
			if let Some(extra_fees_msat) = cur_hop.candidate.htlc_minimum_msat().checked_sub(cur_hop_transferred_amount_msat) {
				cur_hop_transferred_amount_msat += extra_fees_msat;
				if last_hop {
					extra_contribution_msat = extra_fees_msat;
				} else {
					total_fee_paid_msat += extra_fees_msat;
					cur_hop_fees_msat += extra_fees_msat;
				}
			}

			if last_hop {
				cur_hop.fee_msat = cur_hop_transferred_amount_msat;
			} else {
				cur_hop.fee_msat = cur_hop_fees_msat;
			}
            proof { assert(cur_hop_transferred_amount_msat as int == tspec(h0, v, i as int)); }

			if i != 0 {
				if let Some(new_fee) = compute_fees(cur_hop_transferred_amount_msat, cur_hop.candidate.fees()) {
					cur_hop.hop_use_fee_msat = new_fee;
					total_fee_paid_msat += new_fee;
				} else {
					unreachable!();
				}
			}
            proof {
                let post = self.hops@;
                assert(forall|k: int| 0 <= k < n && k != i ==> post[k] == pre[k]);
                lemma_carried_suffix(post, pre, i as int + 1);
                assert(carried(post, i as int) == post[i as int].0.fee_msat + carried(post, i as int + 1));
                assert forall|j: int| i < j < n implies carried(post, j) == carried(pre, j) by { lemma_carried_suffix(post, pre, j); }
            }
		}
		value_msat + extra_contribution_msat
	}
}
}
fn main() {}
