use vstd::prelude::*;
verus! {

pub uninterp spec fn sha256_spec(x: [u8; 32]) -> [u8; 32];
#[verifier::external_body]
fn sha256(x: &[u8; 32]) -> (r: [u8; 32]) ensures r == sha256_spec(*x) { unimplemented!() }

pub open spec fn bit_set(idx: u64, b: int) -> bool { (idx >> (b as u64)) & 1 == 1 }

pub open spec fn flip(s: [u8;32], bitpos: int) -> [u8;32] {
    let i = bitpos / 8;
    vstd::array::spec_array_update(s, i, (s[i] ^ (1u8 << ((bitpos % 8) as u8))))
}

// process bit positions hi-1 down to lo
pub open spec fn derive(s: [u8;32], hi: int, lo: int, idx: u64) -> [u8;32]
    decreases hi - lo
{
    if hi <= lo { s } else {
        let s1 = if bit_set(idx, hi - 1) { sha256_spec(flip(s, hi - 1)) } else { s };
        derive(s1, hi - 1, lo, idx)
    }
}

proof fn lemma_mask(idx: u64, b: u8)
    requires b < 48
    ensures (idx & (1u64 << b) == (1u64 << b)) == bit_set(idx, b as int)
{
    assert((idx & (1u64 << b) == (1u64 << b)) == ((idx >> (b as u64)) & 1 == 1)) by (bit_vector) requires b < 48;
}

fn derive_secret(secret: [u8; 32], bits: u8, idx: u64) -> (r: [u8; 32])
    requires bits <= 48
    ensures r == derive(secret, bits as int, 0, idx)
{
    let mut res: [u8; 32] = secret;
    for i in 0..bits 
        invariant bits <= 48, derive(res, bits as int - i as int, 0, idx) == derive(secret, bits as int, 0, idx)
    {
        let bitpos = bits - 1 - i;
        proof { lemma_mask(idx, bitpos); 
                assert((bitpos & 7) < 8) by (bit_vector);
                assert((bitpos & 7) == bitpos % 8) by (bit_vector);
        }
        if idx & (1 << bitpos) == (1 << bitpos) {
            res[(bitpos / 8) as usize] ^= 1 << (bitpos & 7);
            res = sha256(&res);
        }
    }
    res
}

pub struct CounterpartyCommitmentSecrets {
	pub old_secrets: [([u8; 32], u64); 49],
}

pub open spec fn tz_is(idx: u64, p: int) -> bool {
    // p is the number of trailing zeros of idx capped at 48
    (forall|b: int| 0 <= b < p ==> !bit_set(idx, b)) && (p < 48 ==> bit_set(idx, p)) && 0 <= p <= 48
}

impl CounterpartyCommitmentSecrets {
	fn place_secret(idx: u64) -> (r: u8)
        ensures tz_is(idx, r as int)
    {
		for i in 0..48u8
            invariant forall|b: int| 0 <= b < i ==> !bit_set(idx, b)
        {
            proof { lemma_mask(idx, i); }
			if idx & (1 << i) == (1 << i) {
				return i
			}
		}
		48
	}

	pub fn get_min_seen_secret(&self) -> (r: u64)
        ensures forall|k: int| 0 <= k < 49 ==> r <= self.old_secrets[k].1, r <= (1u64 << 48),
    {
		let mut min = 1 << 48;
        assert((1u64 << 48) == 0x1_0000_0000_0000u64) by (bit_vector);
		for k in 0..49usize
            invariant forall|j: int| 0 <= j < k ==> min <= self.old_secrets[j].1, min <= (1u64<<48)
        {
            let idx = self.old_secrets[k].1;
			if idx < min {
				min = idx;
			}
		}
		min
	}

	pub fn provide_secret(&mut self, idx: u64, secret: [u8; 32]) -> (r: Result<(), ()>)
        ensures
            r is Err ==> *final(self) == *old(self),
            r is Ok ==> ({ let pos = choose|p: int| tz_is(idx, p);
                forall|i: int| 0 <= i < pos ==> derive(secret, pos, 0, old(self).old_secrets[i].1) == old(self).old_secrets[i].0 }),
    {
		let pos = Self::place_secret(idx);
        proof { lemma_tz_unique(idx); }
		for i in 0..pos 
            invariant pos <= 48, *self == *old(self),
              forall|j: int| 0 <= j < i ==> derive(secret, pos as int, 0, self.old_secrets[j].1) == self.old_secrets[j].0
        {
			let (old_secret, old_idx) = self.old_secrets[i as usize];
			if derive_secret(secret, pos, old_idx) != old_secret {
				return Err(());
			}
		}
		if self.get_min_seen_secret() <= idx {
			return Ok(());
		}
		self.old_secrets[pos as usize] = (secret, idx);
		Ok(())
	}
}
proof fn lemma_tz_unique(idx: u64)
    ensures forall|p: int, q: int| tz_is(idx, p) && tz_is(idx, q) ==> p == q
{
    assert forall|p: int, q: int| tz_is(idx, p) && tz_is(idx, q) implies p == q by {
        if p < q { assert(bit_set(idx, p)); assert(!bit_set(idx, p)); }
        if q < p { assert(bit_set(idx, q)); assert(!bit_set(idx, q)); }
    }
}
#[verifier::external_body]
fn arr_eq(a: &[u8;32], b: &[u8;32]) -> (r: bool) ensures r == (*a == *b) { a == b }

}
fn main() {}
