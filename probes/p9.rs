use vstd::prelude::*;
verus! {
use vstd::std_specs::cmp::*;
pub assume_specification<T: core::cmp::Ord>[core::cmp::max::<T>](a: T, b: T) -> (r: T)
    ensures T::obeys_cmp_spec() ==> r == (if b.cmp_spec(&a) == core::cmp::Ordering::Less { a } else { b });

pub struct ChannelTypeFeatures { pub anchors: bool, pub zfc: bool }
impl ChannelTypeFeatures {
    #[verifier::external_body]
    pub fn supports_anchors_zero_fee_htlc_tx(&self) -> (r: bool) ensures r == self.anchors { self.anchors }
    #[verifier::external_body]
    pub fn supports_anchor_zero_fee_commitments(&self) -> (r: bool) ensures r == self.zfc { self.zfc }
}
pub const ANCHOR_OUTPUT_VALUE_SATOSHI: u64 = 330;
pub const COMMITMENT_TX_WEIGHT_PER_HTLC: u64 = 172;

pub open spec fn base_weight(ct: &ChannelTypeFeatures) -> int { if ct.anchors { 1124 } else { 724 } }
pub open spec fn commit_fee_spec(feerate: int, n: int, ct: &ChannelTypeFeatures) -> int {
    feerate * (base_weight(ct) + n * 172) / 1000
}

pub fn commitment_tx_base_weight(channel_type_features: &ChannelTypeFeatures) -> (r: u64)
    ensures r == base_weight(channel_type_features)
{
	const COMMITMENT_TX_BASE_WEIGHT: u64 = 724;
	const COMMITMENT_TX_BASE_ANCHOR_WEIGHT: u64 = 1124;
	if channel_type_features.supports_anchors_zero_fee_htlc_tx() { COMMITMENT_TX_BASE_ANCHOR_WEIGHT } else { COMMITMENT_TX_BASE_WEIGHT }
}

pub fn commit_tx_fee_sat(feerate_per_kw: u32, num_htlcs: usize, channel_type_features: &ChannelTypeFeatures) -> (r: u64)
    requires num_htlcs <= 100_000,
    ensures r == commit_fee_spec(feerate_per_kw as int, num_htlcs as int, channel_type_features),
{
    assert(feerate_per_kw as u64 * (base_weight(channel_type_features) + num_htlcs as u64 * 172) <= 0xffff_ffff * (1124 + 100_000 * 172)) by (nonlinear_arith)
        requires feerate_per_kw <= 0xffff_ffff, num_htlcs <= 100_000, base_weight(channel_type_features) <= 1124;
	feerate_per_kw as u64 *
		(commitment_tx_base_weight(channel_type_features) +
			num_htlcs as u64 * COMMITMENT_TX_WEIGHT_PER_HTLC)
		/ 1000
}

pub struct HTLCAmountDirection { pub outbound: bool, pub amount_msat: u64 }

pub open spec fn sum_dir(s: Seq<HTLCAmountDirection>, outbound: bool) -> int
    decreases s.len()
{
    if s.len() == 0 { 0 } else {
        sum_dir(s.drop_last(), outbound) + (if s.last().outbound == outbound { s.last().amount_msat as int } else { 0 })
    }
}

fn sum_outbound(hs: &[HTLCAmountDirection]) -> (r: u64)
    requires sum_dir(hs@, true) <= u64::MAX,
    ensures r == sum_dir(hs@, true)
{
    let mut t: u64 = 0;
    let mut i: usize = 0;
    while i < hs.len()
        invariant i <= hs.len(), t == sum_dir(hs@.take(i as int), true), sum_dir(hs@, true) <= u64::MAX,
        decreases hs.len() - i
    {
        proof {
            assert(hs@.take(i as int + 1).drop_last() =~= hs@.take(i as int));
            lemma_sum_mono(hs@, i as int + 1, true);
        }
        let htlc = &hs[i];
        if htlc.outbound { t = t + htlc.amount_msat; }
        i += 1;
    }
    proof { assert(hs@.take(hs@.len() as int) =~= hs@); }
    t
}

proof fn lemma_sum_mono(s: Seq<HTLCAmountDirection>, k: int, d: bool)
    requires 0 <= k <= s.len()
    ensures 0 <= sum_dir(s.take(k), d) <= sum_dir(s, d)
    decreases s.len() - k
{
    if k == s.len() { assert(s.take(k) =~= s); lemma_sum_nonneg(s, d); }
    else {
        lemma_sum_mono(s, k + 1, d);
        assert(s.take(k + 1).drop_last() =~= s.take(k));
        lemma_sum_nonneg(s.take(k), d);
    }
}
proof fn lemma_sum_nonneg(s: Seq<HTLCAmountDirection>, d: bool)
    ensures 0 <= sum_dir(s, d)
    decreases s.len()
{ if s.len() > 0 { lemma_sum_nonneg(s.drop_last(), d); } }

}
fn main() {}
