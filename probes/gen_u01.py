import re
base = open('/verif/units/u01c.rs.base').read()
h = open('/verif/probes/u01h_send_window_soundness_theorem.rs').read()
d = open('/verif/probes/u01d_holder_reserved_fee_limit.rs').read()
f = open('/verif/probes/u01f_no_output_boundaries.rs').read()
g = open('/verif/probes/u01g_dust_exposure_window.rs').read()
def between(s, a, b):
    i = s.index(a); j = s.index(b, i); return s[i:j]
def port(name):
    return open('/tmp/port/%s.txt' % name).read()

stats_spec = between(h, 'pub open spec fn stats_spec', 'fn get_next_commitment_stats(')
u01h_lemmas = between(h, '// =====================  U01h: end-to-end soundness', '// =====================  U01h part 2')
# drop duplicates that u01d also defines (affordable / cp_affordable are in u01h_lemmas already)
avail = between(d, '// what one commitment (with n existing', 'fn adjust_capacity_for_holder_reserved_fee(')
avail = re.sub(r'// \(P\) the fee check a sender must pass.*?\n}\n', '', avail, flags=re.S)   # affordable defined in u01h_lemmas
minnd = between(f, 'pub open spec fn min_nondust_sat', 'fn adjust_boundaries_if_max_dust_htlc_produces_no_output(')
localexp = between(g, '// exposure after adding an OUTBOUND htlc', 'fn adjust_min_max_htlc_for_dust_exposure(')
u64i64 = between(g, '#[verifier::external_body]\npub fn u64_to_i64_or_max', '#[derive(Clone, Copy)]\npub struct ChannelConstraints') if '#[derive(Clone, Copy)]\npub struct ChannelConstraints' in g else between(g, '#[verifier::external_body]\npub fn u64_to_i64_or_max', 'pub struct ChannelConstraints')
dlspec = between(h, 'pub open spec fn dl_spec', '// ---- helpers: contracts proved')
noguard = between(h, 'pub open spec fn no_output_guard', '#[verifier::external_body]\nfn adjust_min_max_htlc_if_max_dust_htlc_produces_no_output')
window_facts = between(h, '// the facts lemma_window_sound_one_commitment needs', 'fn get_available_balances(')
theorem = between(h, '// (P) C01, third sentence', '\n}\nfn main')

base = base.replace('//! unit: u01c', '//! unit: u01')
base = base.replace('//! note: BOLT-3 fee formulas', '//! note: send-window helpers (adjust_capacity_for_*_reserved_fee, adjust_min_max_htlc_for_dust_exposure, adjust_boundaries_*/adjust_min_max_htlc_if_max_dust_htlc_produces_no_output), get_available_balances and the end-to-end send-window soundness theorem\n//! note: BOLT-3 fee formulas')
base = base.replace('//! properties: C01', '//! properties: C01 C02')
base = base.replace('//! assume: channel value', '''//! trusted: assume_specification for core::cmp::min; u64_to_i64_or_max is an external_body wrapper for `x.try_into().unwrap_or(i64::MAX)` (R8); get_next_splice_out_maximum_sat is NOT under contract (external_body stub with unconstrained result: FnMut closure assigning a captured local is outside Verus); its result only feeds AvailableBalances.next_splice_out_maximum_sat
//! plemma: C01 theorem_send_window_sound: every amount inside the reported send window yields a valid next commitment on both sides with the counterparty-selected reserve kept (any number of pending HTLCs)
//! plemma: C01 lemma_window_sound_one_commitment: for the funder the fee of the commitment with the fee-spike buffer is still covered above the reserve; for the fundee a non-dust amount leaves the counterparty able to pay the fee above the reserve we selected
//! assume: dust limits and reserves in [1, 21e14] sat resp. <= 21e14 sat; value_to_holder_msat <= channel value; max_dust_htlc_exposure_msat <= 21e18 and current local dust exposure <= max for the dust-exposure window clause
//! assume: channel value''')
base = base.replace("pub assume_specification<T: core::cmp::Ord>[core::cmp::max::<T>]", "pub assume_specification<T: core::cmp::Ord>[core::cmp::min::<T>](a: T, b: T) -> (r: T)\n    ensures T::obeys_cmp_spec() ==> r == (if b.cmp_spec(&a) == core::cmp::Ordering::Less { b } else { a });\npub assume_specification<T: core::cmp::Ord>[core::cmp::max::<T>]", 1)

# functional contract for get_next_commitment_stats
base = base.replace('''//@extract lightning/src/sign/tx_builder.rs :: fn get_next_commitment_stats
//@ret r''', stats_spec + '''//@extract lightning/src/sign/tx_builder.rs :: fn get_next_commitment_stats
//@ret r
//@ensures A full-functional-contract-the-function-computes-exactly-stats_spec
    ({ let sp = stats_spec(local, is_outbound_from_holder, channel_value_satoshis as int, value_to_holder_msat as int, next_commitment_htlcs@, addl_nondust_htlc_count as int,
            feerate_per_kw as int, assume_fee_spike, dust_exposure_limiting_feerate, broadcaster_dust_limit_satoshis as int, channel_type);
       (r is Ok <==> sp is Some) && (r is Ok ==> r->Ok_0.holder_balance_msat == sp->Some_0.0 && r->Ok_0.counterparty_balance_msat == sp->Some_0.1 && r->Ok_0.dust_exposure_msat == sp->Some_0.2) }),''')

holder = port('holder').replace('//@ensures A', '//@ensures P C01 every-amount-up-to-the-limit-passes-the-funders-fee-check-on-both-commitments')
holder = holder.replace('//@end', '''//@mutant fee_buffer_one_htlc_short
    commit_tx_fee_sat(spiked_feerate, nondust_htlc_count + 2, channel_type)
//@with
    commit_tx_fee_sat(spiked_feerate, nondust_htlc_count + 1, channel_type)
//@end''')
cp = port('cp').replace('//@ensures A', '//@ensures P C01 fundee-case-non-dust-amounts-leave-the-counterparty-able-to-pay-the-fee-above-our-reserve')
cp = cp.replace('//@end', '''//@mutant reserve_ignored
    commit_tx_fee_sat * 1000 + channel_constraints.holder_selected_channel_reserve_satoshis * 1000
//@with
    commit_tx_fee_sat * 1000
//@end''')
bound = port('bound').replace('//@ensures A', '//@ensures P C01 every-dust-amount-in-the-adjusted-window-leaves-the-commitment-with-an-output')
bound = bound.replace('//@end', '''//@mutant min_balance_ignores_fee
    cmp::max(dust_limit_satoshis + current_tx_fee_sat, spike_buffer_tx_fee_sat) * 1000
//@with
    dust_limit_satoshis * 1000
//@end''')
dust = port('dust')
dust = dust.replace('''//@at after `- 1 >`
     u64_to_i64_or_max(
//@rw R8
    . try_into ( ) . unwrap_or ( i64 :: MAX
//@with
    
''', '''//@rw ? R8
    $x:ident.try_into().unwrap_or(i64::MAX)
//@with
    u64_to_i64_or_max($x)
''')
dust = dust.replace("""        max_dust_htlc_exposure_msat <= 21_000_000_0000_0000_000,
        
        dust_exposure_spec(true, pending_htlcs@, feerate_per_kw as int, dust_exposure_limiting_feerate, channel_constraints.holder_dust_limit_satoshis as int, channel_type).0 <= max_dust_htlc_exposure_msat,
""", "")
dust = dust.replace("""        forall|a: int| 1 <= a && r.0 <= a <= r.1 && a <= 21_000_000_0000_0000_000 ==>""", """        (max_dust_htlc_exposure_msat <= 21_000_000_0000_0000_000
          && dust_exposure_spec(true, pending_htlcs@, feerate_per_kw as int, dust_exposure_limiting_feerate, channel_constraints.holder_dust_limit_satoshis as int, channel_type).0 <= max_dust_htlc_exposure_msat) ==>
        forall|a: int| 1 <= a && r.0 <= a <= r.1 && a <= 21_000_000_0000_0000_000 ==>""")
dust = dust.replace("""        proof {
            let t = buffer_dust_limit_timeout_sat as int;""", """        proof { if max_dust_htlc_exposure_msat <= 21_000_000_0000_0000_000
          && dust_exposure_spec(true, pending_htlcs@, feerate_per_kw as int, dust_exposure_limiting_feerate, channel_constraints.holder_dust_limit_satoshis as int, channel_type).0 <= max_dust_htlc_exposure_msat {
            let t = buffer_dust_limit_timeout_sat as int;""")
dust = dust.replace("""                assert((a / 1000 < t) == (a < t * 1000));
            }
        }""", """                assert((a / 1000 < t) == (a < t * 1000));
            }
        } }""")
dust = dust.replace('//@end', '''//@at before `if local_dust_exposure_msat as i64`
    proof { lemma_bounds(pending_htlcs@, p_dust(true, dust_buffer_spec(feerate_per_kw as int), channel_constraints.holder_dust_limit_satoshis as int, channel_type)); }
//@end''')
dust = dust.replace('//@ensures A', '//@ensures P C02 every-amount-in-the-adjusted-window-keeps-local-dust-exposure-within-the-configured-maximum')
dust = dust.replace('//@end', '''//@mutant dust_window_not_narrowed
    if available_capacity_msat < dust_exposure_dust_limit_msat { available_capacity_msat = cmp::min(available_capacity_msat, remaining_limit_msat);
//@with
    if available_capacity_msat < dust_exposure_dust_limit_msat { available_capacity_msat = cmp::max(available_capacity_msat, remaining_limit_msat);
//@end''')

R6c = lambda pred, extra: '''//@rw nth=1 R6
    $s:ident.iter().filter(|$h:ident| $body).count()
//@with_template R6count
    PRED = %s
    EXTRA = %s
''' % (pred, extra)
R6s = lambda pred: '''//@rw nth=1 R6
    $s:ident.iter().filter_map(|$h:ident| $c.then_some($v)).sum()
//@with_template R6sum
    PRED = %s
    EXTRA =
''' % pred

gab_proof = between(h, "    proof {\n        let s = pending_htlcs@; let cc = channel_constraints;", "\tAvailableBalances {")

tail = '''
// =====================  send-window helpers  =====================
//@extract lightning/src/sign/tx_builder.rs :: struct ChannelConstraints
//@derive Clone Copy
//@end
//@extract lightning/src/ln/channel.rs :: struct AvailableBalances
//@end
''' + u01h_lemmas + avail + holder + '\n' + cp + '\n' + minnd + bound + '\n' + u64i64 + localexp + dust + '\n' + dlspec + noguard + '''
//@extract lightning/src/sign/tx_builder.rs :: fn adjust_min_max_htlc_if_max_dust_htlc_produces_no_output
//@ret r
//@requires
    local_nondust_htlc_count <= 2000, remote_nondust_htlc_count <= 2000,
    1 <= channel_constraints.holder_dust_limit_satoshis <= 21_000_000_0000_0000, 1 <= channel_constraints.counterparty_dust_limit_satoshis <= 21_000_000_0000_0000,
    local_balance_before_fee_msat <= 21_000_000_0000_0000_000, remote_balance_before_fee_msat <= 21_000_000_0000_0000_000,
//@ensures P C01 every-dust-amount-in-the-window-leaves-both-commitments-with-an-output-and-the-window-is-never-widened
    r.0 >= next_outbound_htlc_minimum_msat, r.1 <= available_capacity_msat,
    forall|a: int| 1 <= a && r.0 <= a <= r.1 && a <= local_balance_before_fee_msat ==>
        #[trigger] no_output_guard(a, is_outbound_from_holder, local_balance_before_fee_msat as int, remote_balance_before_fee_msat as int, feerate_per_kw as int,
            local_nondust_htlc_count as int, channel_constraints.holder_dust_limit_satoshis as int, dl_spec(feerate_per_kw as int, *channel_constraints, channel_type), channel_type)
        && no_output_guard(a, is_outbound_from_holder, local_balance_before_fee_msat as int, remote_balance_before_fee_msat as int, feerate_per_kw as int,
            remote_nondust_htlc_count as int, channel_constraints.counterparty_dust_limit_satoshis as int, dr_spec(feerate_per_kw as int, *channel_constraints, channel_type), channel_type),
//@end

#[verifier::external_body]
fn get_next_splice_out_maximum_sat(a: bool, b: u64, c: u64, d: u64, e: usize, f: usize, g: u32, h: u32, i: &ChannelConstraints, j: &ChannelTypeFeatures) -> u64 { unimplemented!() }

''' + window_facts + '''
//@extract lightning/src/sign/tx_builder.rs :: fn get_available_balances
//@strip ln channel
//@ret r
//@requires
    valid_htlcs(pending_htlcs@), channel_value_satoshis <= 21_000_000_0000_0000, value_to_holder_msat <= channel_value_satoshis * 1000,
    1 <= channel_constraints.holder_dust_limit_satoshis <= 21_000_000_0000_0000, 1 <= channel_constraints.counterparty_dust_limit_satoshis <= 21_000_000_0000_0000,
    channel_constraints.counterparty_selected_channel_reserve_satoshis <= 21_000_000_0000_0000, channel_constraints.holder_selected_channel_reserve_satoshis <= 21_000_000_0000_0000,
    channel_type.zfc ==> feerate_per_kw == 0,
//@ensures P C01 every-amount-inside-the-reported-send-window-satisfies-the-hypotheses-of-the-soundness-theorem-on-both-commitments
    forall|a: int| 1 <= a && r.next_outbound_htlc_minimum_msat <= a <= r.next_outbound_htlc_limit_msat ==>
        #[trigger] window_facts(a, is_outbound_from_holder, channel_value_satoshis as int, value_to_holder_msat as int, pending_htlcs@, feerate_per_kw as int, channel_constraints, channel_type),
//@ensures P C02 reported-dust-exposure-and-window-respect-the-configured-maximum
    (max_dust_htlc_exposure_msat <= 21_000_000_0000_0000_000
      && dust_exposure_spec(true, pending_htlcs@, feerate_per_kw as int, dust_exposure_limiting_feerate, channel_constraints.holder_dust_limit_satoshis as int, channel_type).0 <= max_dust_htlc_exposure_msat) ==>
    forall|a: int| 1 <= a && r.next_outbound_htlc_minimum_msat <= a <= r.next_outbound_htlc_limit_msat && a <= 21_000_000_0000_0000_000 ==>
        #[trigger] local_exposure_after(pending_htlcs@, a, feerate_per_kw as int, dust_exposure_limiting_feerate, channel_constraints, channel_type) <= max_dust_htlc_exposure_msat,
''' + R6c('p_nondust(true, feerate_per_kw as int, channel_constraints.holder_dust_limit_satoshis as int, channel_type)', 'channel_constraints.holder_dust_limit_satoshis <= 21_000_000_0000_0000,') \
    + R6c('p_nondust(false, feerate_per_kw as int, channel_constraints.counterparty_dust_limit_satoshis as int, channel_type)', 'channel_constraints.counterparty_dust_limit_satoshis <= 21_000_000_0000_0000,') \
    + R6s('|h: HTLCAmountDirection| h.outbound') + R6s('|h: HTLCAmountDirection| !h.outbound') \
    + R6c('|h: HTLCAmountDirection| h.outbound', '') + '''//@at before `AvailableBalances {`
''' + gab_proof.rstrip() + '''
//@mutant reserve_not_subtracted_from_outbound_capacity
    .saturating_sub(channel_constraints.counterparty_selected_channel_reserve_satoshis * 1000); let available_capacity_msat
//@with
    .saturating_sub(0); let available_capacity_msat
//@mutant fundee_uses_funder_helper
    let available_capacity_msat = if is_outbound_from_holder {
//@with
    let available_capacity_msat = if true {
//@end

''' + theorem + '\n'
base = base.replace('\n}\nfn main() {}', tail + '\n}\nfn main() {}')
open('/verif/units/u01.rs', 'w').write(base)
