use vstd::prelude::*;
verus! {
pub struct H { pub outbound: bool, pub amount_msat: u64 }
fn sm(hs: &[H]) -> u64 {
    let mut t: u64 = 0;
    for h in hs.iter() {
        if h.outbound { t = t.saturating_add(h.amount_msat); }
    }
    t
}
fn cl(a: u64) -> u64 {
    let f = |x: u64, y: u64| -> (r: u64) requires x < 1000, y < 1000 ensures r == x + y { x + y };
    f(1, 2)
}
fn dbg(a: u64) { debug_assert!(a == a); }
}
fn main() {}
