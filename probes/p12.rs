use vstd::prelude::*;
verus! {

pub uninterp spec fn sha256_spec(x: [u8; 32]) -> [u8; 32];
#[verifier::external_body]
fn sha256(x: &[u8; 32]) -> (r: [u8; 32]) ensures r == sha256_spec(*x) { unimplemented!() }

pub open spec fn bit_set(idx: u64, b: int) -> bool { (idx >> (b as u64)) & 1 == 1 }

pub open spec fn flip(s: [u8;32], bitpos: int) -> [u8;32] {
    let i = bitpos / 8;
    vstd::array::spec_array_update(s, i, (s[i] ^ (1u8 << ((bitpos % 8) as u8))))
}

// process bit positions hi-1 down to lo
pub open spec fn derive(s: [u8;32], hi: int, lo: int, idx: u64) -> [u8;32]
    decreases hi - lo
{
    if hi <= lo { s } else {
        let s1 = if bit_set(idx, hi - 1) { sha256_spec(flip(s, hi - 1)) } else { s };
        derive(s1, hi - 1, lo, idx)
    }
}

proof fn lemma_mask(idx: u64, b: u8)
    requires b < 48
    ensures (idx & (1u64 << b) == (1u64 << b)) == bit_set(idx, b as int)
{
    assert((idx & (1u64 << b) == (1u64 << b)) == ((idx >> (b as u64)) & 1 == 1)) by (bit_vector) requires b < 48;
}

fn derive_secret(secret: [u8; 32], bits: u8, idx: u64) -> (r: [u8; 32])
    requires bits <= 48
    ensures r == derive(secret, bits as int, 0, idx)
{
    let mut res: [u8; 32] = secret;
    for i in 0..bits 
        invariant bits <= 48, derive(res, bits as int - i as int, 0, idx) == derive(secret, bits as int, 0, idx)
    {
        let bitpos = bits - 1 - i;
        proof { lemma_mask(idx, bitpos); 
                assert((bitpos & 7) < 8) by (bit_vector);
                assert((bitpos & 7) == bitpos % 8) by (bit_vector);
        }
        if idx & (1 << bitpos) == (1 << bitpos) {
            res[(bitpos / 8) as usize] ^= 1 << (bitpos & 7);
            res = sha256(&res);
        }
    }
    res
}

}
fn main() {}
