// PROBE U05a: CounterpartyCommitmentSecrets (bodies verbatim) + shachain history theorem. SHA-256 uninterpreted.
use vstd::prelude::*;
verus! {

pub uninterp spec fn sha256_spec(x: [u8; 32]) -> [u8; 32];
#[verifier::external_body]
fn sha256(x: &[u8; 32]) -> (r: [u8; 32]) ensures r == sha256_spec(*x) { unimplemented!() }

pub open spec fn bit_set(idx: u64, b: int) -> bool { (idx >> (b as u64)) & 1 == 1 }
pub open spec fn flip(s: [u8;32], bitpos: int) -> [u8;32] {
    let i = bitpos / 8;
    vstd::array::spec_array_update(s, i, (s[i] ^ (1u8 << ((bitpos % 8) as u8))))
}
// process bit positions hi-1 down to lo
pub open spec fn derive(s: [u8;32], hi: int, lo: int, idx: u64) -> [u8;32]
    decreases hi - lo
{
    if hi <= lo { s } else {
        let s1 = if bit_set(idx, hi - 1) { sha256_spec(flip(s, hi - 1)) } else { s };
        derive(s1, hi - 1, lo, idx)
    }
}

// ---------- lemmas about derive (pure induction) ----------
pub proof fn lemma_derive_split(s: [u8;32], hi: int, mid: int, lo: int, idx: u64)
    requires lo <= mid <= hi
    ensures derive(s, hi, lo, idx) == derive(derive(s, hi, mid, idx), mid, lo, idx)
    decreases hi - mid
{
    if hi > mid {
        let s1 = if bit_set(idx, hi - 1) { sha256_spec(flip(s, hi - 1)) } else { s };
        lemma_derive_split(s1, hi - 1, mid, lo, idx);
    }
}
pub proof fn lemma_derive_agree(s: [u8;32], hi: int, lo: int, i1: u64, i2: u64)
    requires forall|b: int| lo <= b < hi ==> bit_set(i1, b) == bit_set(i2, b)
    ensures derive(s, hi, lo, i1) == derive(s, hi, lo, i2)
    decreases hi - lo
{
    if hi > lo {
        let s1 = if bit_set(i1, hi - 1) { sha256_spec(flip(s, hi - 1)) } else { s };
        lemma_derive_agree(s1, hi - 1, lo, i1, i2);
    }
}
pub proof fn lemma_derive_zero(s: [u8;32], hi: int, lo: int, idx: u64)
    requires forall|b: int| lo <= b < hi ==> !bit_set(idx, b)
    ensures derive(s, hi, lo, idx) == s
    decreases hi - lo
{
    if hi > lo { lemma_derive_zero(s, hi - 1, lo, idx); }
}
// key step: a secret for the head `iq` of a sub-block (q trailing zeros, agreeing with j above q) derives j's secret
pub proof fn lemma_derive_via_head(secret: [u8;32], pos: int, q: int, iq: u64, j: u64)
    requires 0 <= q <= pos,
        forall|b: int| 0 <= b < q ==> !bit_set(iq, b),
        forall|b: int| q <= b < pos ==> bit_set(iq, b) == bit_set(j, b),
    ensures derive(secret, pos, 0, j) == derive(derive(secret, pos, 0, iq), q, 0, j)
{
    lemma_derive_split(secret, pos, q, 0, j);
    lemma_derive_agree(secret, pos, q, j, iq);
    lemma_derive_split(secret, pos, q, 0, iq);
    lemma_derive_zero(derive(secret, pos, q, iq), q, 0, iq);
}
// ---------- index arithmetic (closed forms, 48-bit indices in u64) ----------
pub open spec fn P48() -> u64 { 0x1_0000_0000_0000u64 }
pub open spec fn low_mask(i: u64) -> u64 { ((1u64 << i) - 1) as u64 }
pub open spec fn clear_low(idx: u64, i: u64) -> u64 { idx & !low_mask(i) }
// idx has exactly p trailing zero bits (capped at 48, the value place_secret returns)
pub open spec fn tzc(idx: u64, p: u64) -> bool { p <= 48 && idx & low_mask(p) == 0 && (p < 48 ==> (idx >> p) & 1 == 1) }

pub open spec fn tz48_from(idx: u64, k: int) -> int
    decreases 48 - k
{
    if k >= 48 { 48 } else if bit_set(idx, k) { k } else { tz48_from(idx, k + 1) }
}
pub open spec fn tz48(idx: u64) -> int { tz48_from(idx, 0) }

pub proof fn lemma_mask(idx: u64, b: u8)
    requires b < 64
    ensures (idx & (1u64 << b) == (1u64 << b)) == bit_set(idx, b as int)
{
    assert((idx & (1u64 << b) == (1u64 << b)) == ((idx >> (b as u64)) & 1 == 1)) by (bit_vector) requires b < 64;
}

pub struct CounterpartyCommitmentSecrets {
	pub old_secrets: [([u8; 32], u64); 49],
}

pub open spec fn spec_min_seen(st: CounterpartyCommitmentSecrets, k: int) -> u64
    decreases k
{
    if k <= 0 { P48() } else { let r = spec_min_seen(st, k - 1); if st.old_secrets[k - 1].1 < r { st.old_secrets[k - 1].1 } else { r } }
}
pub open spec fn checks_pass(st: CounterpartyCommitmentSecrets, pos: int, secret: [u8;32]) -> bool {
    forall|i: int| 0 <= i < pos ==> derive(secret, pos, 0, #[trigger] st.old_secrets[i].1) == st.old_secrets[i].0
}
// first bucket (scanning upwards from k) whose stored index equals idx with its low bits cleared
pub open spec fn first_match(st: CounterpartyCommitmentSecrets, idx: u64, k: int) -> int
    decreases 49 - k
{
    if k >= 49 { 49 } else if clear_low(idx, k as u64) == st.old_secrets[k].1 { k } else { first_match(st, idx, k + 1) }
}

impl CounterpartyCommitmentSecrets {
	fn place_secret(idx: u64) -> (r: u8)
        ensures tzc(idx, r as u64), r as int == tz48(idx)
    {
        assert(idx & low_mask(0) == 0) by (bit_vector);
		for i in 0..48u8
            invariant idx & low_mask(i as u64) == 0, tz48_from(idx, i as int) == tz48(idx)
        {
            proof {
                let ii = i as u64;
                lemma_mask(idx, i);
                assert(idx & (1u64 << ii) == (1u64 << ii) ==> (idx >> ii) & 1 == 1) by (bit_vector) requires ii < 48;
                assert(idx & low_mask(ii) == 0 && !(idx & (1u64 << ii) == (1u64 << ii)) ==> idx & low_mask((ii + 1) as u64) == 0) by (bit_vector) requires ii < 48;
            }
			if idx & (1 << i) == (1 << i) {
				return i
			}
		}
		48
	}

	pub fn get_min_seen_secret(&self) -> (r: u64)
        ensures r == spec_min_seen(*self, 49)
    {
		let mut min = 1 << 48;
        assert((1u64 << 48) == 0x1_0000_0000_0000u64) by (bit_vector);
		for k in 0..49usize
            invariant min == spec_min_seen(*self, k as int)
        {
            let idx = self.old_secrets[k].1;   // R: `for &(_, idx) in self.old_secrets.iter()` (see note)
			if idx < min {
				min = idx;
			}
		}
		min
	}

	fn derive_secret(secret: [u8; 32], bits: u8, idx: u64) -> (r: [u8; 32])
        requires bits <= 48
        ensures r == derive(secret, bits as int, 0, idx)
    {
		let mut res: [u8; 32] = secret;
		for i in 0..bits
            invariant bits <= 48, derive(res, bits as int - i as int, 0, idx) == derive(secret, bits as int, 0, idx)
        {
			let bitpos = bits - 1 - i;
            proof { lemma_mask(idx, bitpos);
                    assert((bitpos & 7) < 8) by (bit_vector);
                    assert((bitpos & 7) == bitpos % 8) by (bit_vector);
            }
			if idx & (1 << bitpos) == (1 << bitpos) {
				res[(bitpos / 8) as usize] ^= 1 << (bitpos & 7);
				res = sha256(&res);
			}
		}
		res
	}

	pub fn provide_secret(&mut self, idx: u64, secret: [u8; 32]) -> (r: Result<(), ()>)
        ensures ({
            let pos = tz48(idx);
            &&& r is Ok <==> checks_pass(*old(self), pos as int, secret)
            &&& r is Err ==> *final(self) == *old(self)
            &&& r is Ok ==> final(self).old_secrets@ == (if spec_min_seen(*old(self), 49) <= idx { old(self).old_secrets@ }
                                                         else { old(self).old_secrets@.update(pos as int, (secret, idx)) })
        }),
    {
		let pos = Self::place_secret(idx);
		for i in 0..pos
            invariant pos <= 48, *self == *old(self), pos as int == tz48(idx),
              forall|j: int| 0 <= j < i ==> derive(secret, pos as int, 0, #[trigger] self.old_secrets[j].1) == self.old_secrets[j].0
        {
			let (old_secret, old_idx) = self.old_secrets[i as usize];
			if !arr_eq(&Self::derive_secret(secret, pos, old_idx), &old_secret) {   // R8: array `!=`
				return Err(());
			}
		}
		if self.get_min_seen_secret() <= idx {
			return Ok(());
		}
		self.old_secrets[pos as usize] = (secret, idx);
		Ok(())
	}
}

#[verifier::external_body]
fn arr_eq(a: &[u8;32], b: &[u8;32]) -> (r: bool) ensures r == (*a == *b) { a == b }
pub proof fn lemma_tzc_unique(idx: u64)
    ensures forall|p: u64, q: u64| tzc(idx, p) && tzc(idx, q) ==> p == q
{
    assert forall|p: u64, q: u64| tzc(idx, p) && tzc(idx, q) implies p == q by {
        assert(tzc(idx, p) && tzc(idx, q) ==> p == q) by (bit_vector);
    }
}

pub open spec fn get_spec(st: CounterpartyCommitmentSecrets, idx: u64) -> Option<[u8;32]> {
    let fm = first_match(st, idx, 0);
    if fm < 49 { Some(derive(st.old_secrets[fm].0, fm, 0, idx)) } else { None }
}
impl CounterpartyCommitmentSecrets {
	pub fn get_secret(&self, idx: u64) -> (r: Option<[u8; 32]>)
        requires first_match(*self, idx, 0) == 49 ==> idx < spec_min_seen(*self, 49),   // discharged from the history invariant
        ensures r == get_spec(*self, idx)
    {
		for i in 0..self.old_secrets.len()
            invariant first_match(*self, idx, i as int) == first_match(*self, idx, 0), self.old_secrets.len() == 49,
        {
            proof {
                let ii = i as u64;
                assert((1u64 << ii) >= 1) by (bit_vector) requires ii < 49;
                assert((idx & (!(((1u64 << ii) - 1) as u64))) == clear_low(idx, ii)) by (bit_vector) requires ii < 49;
            }
			if (idx & (!((1 << i) - 1))) == self.old_secrets[i].1 {
				return Some(Self::derive_secret(self.old_secrets[i].0, i as u8, idx))
			}
		}
		assert!(idx < self.get_min_seen_secret());
		None
	}
}

// =====================  HISTORY THEOREM  =====================
// smallest x >= m with exactly p trailing zeros (p < 48)
pub open spec fn lowest(m: u64, p: u64) -> u64 {
    let r = ((m + low_mask(p)) as u64 >> p) << p;
    if (r >> p) & 1 == 1 { r } else { (r + (1u64 << p)) as u64 }
}
pub open spec fn head(m: u64, p: int) -> u64 { if p < 48 { lowest(m, p as u64) } else if m == 0 { 0 } else { P48() } }

pub open spec fn bucket_ok(st: CounterpartyCommitmentSecrets, f: spec_fn(u64) -> [u8;32], m: u64, p: int) -> bool {
    let h = head(m, p);
    if h < P48() { st.old_secrets[p] == (f(h), h) } else { st.old_secrets[p].1 == P48() }
}
pub open spec fn consistent(f: spec_fn(u64) -> [u8;32], m: u64) -> bool {
    forall|i: u64, j: u64, p: u64| #![trigger derive(f(i), p as int, 0, j)]
        m <= i < P48() && m <= j < P48() && tzc(i, p) && clear_low(j, p) == i ==> derive(f(i), p as int, 0, j) == f(j)
}
// representation invariant: secrets for indices m .. 2^48-1 have been provided (f), in protocol (descending) order
pub open spec fn inv(st: CounterpartyCommitmentSecrets, f: spec_fn(u64) -> [u8;32], m: u64) -> bool {
    &&& m <= P48()
    &&& forall|p: int| 0 <= p < 49 ==> #[trigger] bucket_ok(st, f, m, p)
    &&& consistent(f, m)
}

// ---- bit-vector facts ----
pub proof fn bv_lowest_props(m: u64, p: u64)
    requires m <= P48(), p < 48
    ensures lowest(m, p) >= m, lowest(m, p) < P48() ==> tzc(lowest(m, p), p),
{
    assert(lowest(m, p) >= m && (lowest(m, p) < 0x1_0000_0000_0000u64 ==> tzc(lowest(m, p), p))) by (bit_vector)
        requires m <= 0x1_0000_0000_0000u64, p < 48;
}
pub proof fn bv_lowest_other(idx: u64, pos: u64, p: u64)
    requires idx < P48(), pos <= 48, p < 48, p != pos, tzc(idx, pos)
    ensures lowest(idx, p) == lowest((idx + 1) as u64, p)
{
    assert(lowest(idx, p) == lowest((idx + 1) as u64, p)) by (bit_vector)
        requires idx < 0x1_0000_0000_0000u64, pos <= 48, p < 48, p != pos, tzc(idx, pos);
}
pub proof fn bv_lowest_self(idx: u64, pos: u64)
    requires idx < P48(), pos < 48, tzc(idx, pos)
    ensures lowest(idx, pos) == idx
{
    assert(lowest(idx, pos) == idx) by (bit_vector) requires idx < 0x1_0000_0000_0000u64, pos < 48, tzc(idx, pos);
}
pub proof fn bv_clear_le(j: u64, p: u64)
    requires p <= 48
    ensures clear_low(j, p) <= j
{
    assert(clear_low(j, p) <= j) by (bit_vector) requires p <= 48;
}
pub proof fn bv_tz_zero(idx: u64)
    requires idx < P48()
    ensures tzc(idx, 48) <==> idx == 0
{
    assert(tzc(idx, 48) <==> idx == 0) by (bit_vector) requires idx < 0x1_0000_0000_0000u64;
}
pub proof fn bv_tzc_bits(idx: u64, p: u64, b: u64)
    requires tzc(idx, p), b < p
    ensures !bit_set(idx, b as int)
{
    assert(tzc(idx, p) && b < p ==> !((idx >> b) & 1 == 1)) by (bit_vector);
}
// sub-block structure below a freshly inserted idx (tz == pos): j = idx + x, 2^q <= x < 2^(q+1), q < pos
pub proof fn bv_subblock(idx: u64, pos: u64, j: u64, q: u64)
    requires idx < P48(), pos <= 48, tzc(idx, pos), q < pos, idx < j, j < P48(), clear_low(j, pos) == idx, ((j - idx) as u64 >> q) == 1
    ensures ({ let iq = (idx + (1u64 << q)) as u64;
        &&& clear_low(j, q) == iq
        &&& lowest((idx + 1) as u64, q) == iq
        &&& tzc(iq, q)
        &&& (idx + 1) as u64 <= iq < P48() })
{
    assert({ let iq = (idx + (1u64 << q)) as u64;
        clear_low(j, q) == iq && lowest((idx + 1) as u64, q) == iq && tzc(iq, q) && (idx + 1) as u64 <= iq && iq < 0x1_0000_0000_0000u64 }) by (bit_vector)
        requires idx < 0x1_0000_0000_0000u64, pos <= 48, tzc(idx, pos), q < pos, idx < j, j < 0x1_0000_0000_0000u64, clear_low(j, pos) == idx, ((j - idx) as u64 >> q) == 1;
}
pub proof fn bv_subblock_bits(idx: u64, pos: u64, j: u64, q: u64, b: u64)
    requires idx < P48(), pos <= 48, tzc(idx, pos), q < pos, idx < j, j < P48(), clear_low(j, pos) == idx, ((j - idx) as u64 >> q) == 1, b < pos
    ensures ({ let iq = (idx + (1u64 << q)) as u64;
        (b < q ==> !bit_set(iq, b as int)) && (b >= q ==> bit_set(iq, b as int) == bit_set(j, b as int)) })
{
    assert({ let iq = (idx + (1u64 << q)) as u64;
        (b < q ==> !((iq >> b) & 1 == 1)) && (b >= q ==> ((iq >> b) & 1 == 1) == ((j >> b) & 1 == 1)) }) by (bit_vector)
        requires idx < 0x1_0000_0000_0000u64, pos <= 48, tzc(idx, pos), q < pos, idx < j, j < 0x1_0000_0000_0000u64, clear_low(j, pos) == idx, ((j - idx) as u64 >> q) == 1, b < pos;
}
// highest set bit below `k`
pub open spec fn hsb(x: u64, k: int) -> int
    decreases k
{
    if k <= 0 { -1 } else if bit_set(x, k - 1) { k - 1 } else { hsb(x, k - 1) }
}
pub proof fn lemma_hsb(x: u64, k: int)
    requires 0 <= k <= 63, x > 0, x < (1u64 << (k as u64))
    ensures 0 <= hsb(x, k) < k, (x >> (hsb(x, k) as u64)) == 1
    decreases k
{
    if k == 0 { assert((1u64 << 0) == 1) by (bit_vector); }
    else {
        let kk = (k - 1) as u64;
        if bit_set(x, k - 1) {
            assert(x < (1u64 << ((kk + 1) as u64)) && (x >> kk) & 1 == 1 ==> (x >> kk) == 1) by (bit_vector) requires kk < 63;
        } else {
            assert(x < (1u64 << ((kk + 1) as u64)) && !((x >> kk) & 1 == 1) ==> x < (1u64 << kk)) by (bit_vector) requires kk < 63;
            lemma_hsb(x, k - 1);
        }
    }
}

pub open spec fn upd(f: spec_fn(u64) -> [u8;32], idx: u64, secret: [u8;32]) -> spec_fn(u64) -> [u8;32] {
    |j: u64| if j == idx { secret } else { f(j) }
}
pub open spec fn store_at(st: CounterpartyCommitmentSecrets, pos: int, secret: [u8;32], idx: u64) -> CounterpartyCommitmentSecrets {
    CounterpartyCommitmentSecrets { old_secrets: vstd::array::spec_array_update(st.old_secrets, pos, (secret, idx)) }
}

pub proof fn lemma_tz48_tzc(idx: u64)
    ensures tzc(idx, tz48(idx) as u64), 0 <= tz48(idx) <= 48
{
    assert(idx & low_mask(0) == 0) by (bit_vector);
    lemma_tz48_from(idx, 0);
}
pub proof fn lemma_tz48_from(idx: u64, k: int)
    requires 0 <= k <= 48, idx & low_mask(k as u64) == 0
    ensures tzc(idx, tz48_from(idx, k) as u64), k <= tz48_from(idx, k) <= 48
    decreases 48 - k
{
    if k < 48 {
        let kk = k as u64;
        if bit_set(idx, k) { }
        else {
            assert(idx & low_mask(kk) == 0 && !((idx >> kk) & 1 == 1) ==> idx & low_mask((kk + 1) as u64) == 0) by (bit_vector) requires kk < 48;
            lemma_tz48_from(idx, k + 1);
        }
    }
}

// all stored indices are >= m, hence so is their minimum
pub proof fn lemma_min_seen_ge(st: CounterpartyCommitmentSecrets, f: spec_fn(u64) -> [u8;32], m: u64, k: int)
    requires inv(st, f, m), 0 <= k <= 49
    ensures spec_min_seen(st, k) >= m
    decreases k
{
    if k > 0 {
        lemma_min_seen_ge(st, f, m, k - 1);
        assert(bucket_ok(st, f, m, k - 1));
        if k - 1 < 48 { bv_lowest_props(m, (k - 1) as u64); }
    }
}

// (P) one protocol step: the peer reveals the next (lower) index and the consistency checks pass
pub proof fn lemma_provide_preserves_inv(st: CounterpartyCommitmentSecrets, f: spec_fn(u64) -> [u8;32], m: u64, idx: u64, secret: [u8;32])
    requires inv(st, f, m), 1 <= m, idx == m - 1, checks_pass(st, tz48(idx), secret)
    ensures inv(store_at(st, tz48(idx), secret, idx), upd(f, idx, secret), idx),
            spec_min_seen(st, 49) > idx,      // so provide_secret really stores
{
    lemma_tz48_tzc(idx);
    lemma_tzc_unique(idx);
    lemma_min_seen_ge(st, f, m, 49);
    let pos = tz48(idx);
    let posu = pos as u64;
    let st2 = store_at(st, pos, secret, idx);
    let f2 = upd(f, idx, secret);
    bv_tz_zero(idx);
    // (i) buckets
    assert forall|p: int| 0 <= p < 49 implies #[trigger] bucket_ok(st2, f2, idx, p) by {
        assert(bucket_ok(st, f, m, p));
        if p == pos {
            if pos < 48 { bv_lowest_self(idx, posu); }
        } else {
            if p < 48 {
                bv_lowest_other(idx, posu, p as u64);
                bv_lowest_props(m, p as u64);
            } else {
                // p == 48 != pos  ==> idx != 0 and m != 0
            }
        }
    }
    // (ii) consistency of the provided secrets
    assert forall|i: u64, j: u64, p: u64| idx <= i < P48() && idx <= j < P48() && tzc(i, p) && clear_low(j, p) == i
        implies #[trigger] derive(f2(i), p as int, 0, j) == f2(j) by
    {
        bv_clear_le(j, p);
        if i != idx {
            // then j >= i >= m
            assert(j != idx);
            assert(derive(f(i), p as int, 0, j) == f(j));
        } else {
            assert(p == posu);
            if j == idx {
                assert forall|b: int| 0 <= b < pos implies !bit_set(idx, b) by { bv_tzc_bits(idx, posu, b as u64); }
                lemma_derive_zero(secret, pos, 0, idx);
            } else {
                let x = (j - idx) as u64;
                assert(x < (1u64 << posu)) by (bit_vector)
                    requires posu <= 48, idx < j, j < 0x1_0000_0000_0000u64, clear_low(j, posu) == idx, x == (j - idx) as u64;
                lemma_hsb(x, pos);
                let q = hsb(x, pos);
                let qu = q as u64;
                bv_subblock(idx, posu, j, qu);
                let iq = (idx + (1u64 << qu)) as u64;
                assert forall|b: int| 0 <= b < q implies !bit_set(iq, b) by { bv_subblock_bits(idx, posu, j, qu, b as u64); }
                assert forall|b: int| q <= b < pos implies bit_set(iq, b) == bit_set(j, b) by { bv_subblock_bits(idx, posu, j, qu, b as u64); }
                // bucket q of the old state holds (f(iq), iq) and was checked against the new secret
                assert(bucket_ok(st, f, m, q));
                assert(head(m, q) == iq);
                assert(st.old_secrets[q] == (f(iq), iq));
                assert(derive(secret, pos, 0, st.old_secrets[q].1) == st.old_secrets[q].0);
                lemma_derive_via_head(secret, pos, q, iq, j);
                assert(derive(f(iq), q, 0, j) == f(j));      // old consistency, instantiated at (iq, j, q)
            }
        }
    }
}

// initial state: nothing provided yet
pub proof fn lemma_init_inv(st: CounterpartyCommitmentSecrets, f: spec_fn(u64) -> [u8;32])
    requires forall|p: int| 0 <= p < 49 ==> (#[trigger] st.old_secrets[p]).1 == P48()
    ensures inv(st, f, P48())
{
    assert forall|p: int| 0 <= p < 49 implies #[trigger] bucket_ok(st, f, P48(), p) by {
        if p < 48 { bv_lowest_props(P48(), p as u64); }
        assert(st.old_secrets[p].1 == P48());
    }
}

pub proof fn lemma_first_match_le(st: CounterpartyCommitmentSecrets, idx: u64, k: int, p: int)
    requires 0 <= k <= p < 49, clear_low(idx, p as u64) == st.old_secrets[p].1
    ensures k <= first_match(st, idx, k) <= p
    decreases 49 - k
{
    if clear_low(idx, k as u64) != st.old_secrets[k].1 { lemma_first_match_le(st, idx, k + 1, p); }
}
pub proof fn lemma_first_match_props(st: CounterpartyCommitmentSecrets, idx: u64, k: int)
    requires 0 <= k <= 49
    ensures ({ let fm = first_match(st, idx, k);
        k <= fm <= 49 && (fm < 49 ==> clear_low(idx, fm as u64) == st.old_secrets[fm].1)
        && forall|p: int| k <= p < fm ==> clear_low(idx, p as u64) != #[trigger] st.old_secrets[p].1 })
    decreases 49 - k
{
    if k < 49 && clear_low(idx, k as u64) != st.old_secrets[k].1 { lemma_first_match_props(st, idx, k + 1); }
}
// j > m: bucket k = highest bit where j and m differ covers j
pub proof fn bv_cover(m: u64, j: u64, k: u64)
    requires m < j, j < P48(), k < 48, ((j ^ m) >> k) == 1
    ensures lowest(m, k) == clear_low(j, k), lowest(m, k) < P48()
{
    assert(lowest(m, k) == clear_low(j, k) && lowest(m, k) < 0x1_0000_0000_0000u64) by (bit_vector)
        requires m < j, j < 0x1_0000_0000_0000u64, k < 48, ((j ^ m) >> k) == 1;
}

// (P) every secret ever provided stays retrievable and is returned exactly; nothing else is returned
pub proof fn lemma_lookup(st: CounterpartyCommitmentSecrets, f: spec_fn(u64) -> [u8;32], m: u64, j: u64)
    requires inv(st, f, m), j < P48()
    ensures j >= m ==> get_spec(st, j) == Some(f(j)),
            j < m ==> get_spec(st, j) is None && first_match(st, j, 0) == 49 && j < spec_min_seen(st, 49),
{
    lemma_first_match_props(st, j, 0);
    lemma_min_seen_ge(st, f, m, 49);
    let fm = first_match(st, j, 0);
    if fm < 49 {
        // the matching bucket is a touched one, its head has fm trailing zeros and lies in [m, j]
        assert(bucket_ok(st, f, m, fm));
        bv_clear_le(j, fm as u64);
        let h = head(m, fm);
        assert(st.old_secrets[fm].1 < P48());
        assert(h < P48() && st.old_secrets[fm] == (f(h), h));
        if fm < 48 { bv_lowest_props(m, fm as u64); } else { bv_tz_zero(0); }
        assert(h >= m && tzc(h, fm as u64));
        if j >= m {
            assert(derive(f(h), fm, 0, j) == f(j));
        }
    }
    if j >= m {
        // existence of a matching bucket
        if j == m {
            lemma_tz48_tzc(m);
            let p = tz48(m);
            assert(bucket_ok(st, f, m, p));
            if p < 48 { bv_lowest_self(m, p as u64); } else { bv_tz_zero(m); }
            let pu = p as u64;
            assert(clear_low(m, pu) == m) by (bit_vector) requires tzc(m, pu);
            lemma_first_match_le(st, j, 0, p);
        } else {
            let x = j ^ m;
            assert(x > 0 && x < (1u64 << 48)) by (bit_vector) requires m < j, j < 0x1_0000_0000_0000u64, x == j ^ m;
            lemma_hsb(x, 48);
            let k = hsb(x, 48);
            bv_cover(m, j, k as u64);
            assert(bucket_ok(st, f, m, k));
            lemma_first_match_le(st, j, 0, k);
        }
    }
}

// =====================  generator / consumer agreement  =====================
pub open spec fn gen(seed: [u8;32]) -> spec_fn(u64) -> [u8;32] { |j: u64| derive(seed, 48, 0, j) }

pub fn build_commitment_secret(commitment_seed: &[u8; 32], idx: u64) -> (r: [u8; 32])
    ensures r == derive(*commitment_seed, 48, 0, idx)
{
	let mut res: [u8; 32] = *commitment_seed;      // R8: `.clone()` on a Copy array
	for i in 0..48usize
        invariant derive(res, 48 - i as int, 0, idx) == derive(*commitment_seed, 48, 0, idx)
    {
		let bitpos = 47 - i;
        proof { lemma_mask(idx, bitpos as u8);
                let bp = bitpos as u64;
                assert((bp & 7) < 8) by (bit_vector);
                assert((bp & 7) == bp % 8) by (bit_vector);
                assert(bp / 8 < 32) by (bit_vector) requires bp < 48;
        }
		if idx & (1 << bitpos) == (1 << bitpos) {
			res[bitpos / 8] ^= 1 << (bitpos & 7);
			res = sha256(&res);
		}
	}
	res
}

pub proof fn bv_head_below(idx: u64, pos: u64, i: u64, b: u64)
    requires idx < P48(), pos <= 48, tzc(idx, pos), i < pos, b < 48
    ensures ({ let h = (idx + (1u64 << i)) as u64;
        &&& lowest((idx + 1) as u64, i) == h && h < P48()
        &&& (b >= pos ==> bit_set(h, b as int) == bit_set(idx, b as int)) })
{
    assert({ let h = (idx + (1u64 << i)) as u64;
        lowest((idx + 1) as u64, i) == h && h < 0x1_0000_0000_0000u64 && (b >= pos ==> ((h >> b) & 1 == 1) == ((idx >> b) & 1 == 1)) }) by (bit_vector)
        requires idx < 0x1_0000_0000_0000u64, pos <= 48, tzc(idx, pos), i < pos, b < 48;
}

// (P) an honest peer (secrets generated by build_commitment_secret from one seed, revealed in order) is never rejected
pub proof fn lemma_generated_secret_accepted(st: CounterpartyCommitmentSecrets, seed: [u8;32], m: u64, idx: u64)
    requires inv(st, gen(seed), m), 1 <= m, idx == m - 1
    ensures checks_pass(st, tz48(idx), gen(seed)(idx))
{
    lemma_tz48_tzc(idx);
    let pos = tz48(idx);
    let posu = pos as u64;
    let secret = gen(seed)(idx);
    assert forall|i: int| 0 <= i < pos implies derive(secret, pos, 0, #[trigger] st.old_secrets[i].1) == st.old_secrets[i].0 by {
        let h = (idx + (1u64 << (i as u64))) as u64;
        bv_head_below(idx, posu, i as u64, 0);
        assert(bucket_ok(st, gen(seed), m, i));
        assert(st.old_secrets[i] == (gen(seed)(h), h));
        // gen(h) = derive(seed,48,0,h) = derive(derive(seed,48,pos,h), pos, 0, h); derive(seed,48,pos,h) == derive(seed,48,pos,idx) == gen(idx)
        lemma_derive_split(seed, 48, pos, 0, h);
        assert forall|b: int| pos <= b < 48 implies bit_set(h, b) == bit_set(idx, b) by { bv_head_below(idx, posu, i as u64, b as u64); }
        lemma_derive_agree(seed, 48, pos, h, idx);
        lemma_derive_split(seed, 48, pos, 0, idx);
        assert forall|b: int| 0 <= b < pos implies !bit_set(idx, b) by { bv_tzc_bits(idx, posu, b as u64); }
        lemma_derive_zero(derive(seed, 48, pos, idx), pos, 0, idx);
    }
}

}
fn main() {}
