// PROBE U12: CounterpartyCommitmentSecrets write/read round trip in Verus with Writer/Reader stubs (ghost byte log)
use vstd::prelude::*;
verus! {
pub struct IoError {}
pub struct DecodeError {}
// Writer = append-only byte log; Reader = cursor over a byte sequence (both external, contracts = std::io semantics)
pub struct W { pub log: Ghost<Seq<u8>> }
impl W {
    #[verifier::external_body]
    pub fn write_all(&mut self, buf: &[u8]) -> (r: Result<(), IoError>)
        ensures r is Ok ==> final(self).log@ == old(self).log@ + buf@, r is Err ==> final(self).log@ == old(self).log@
    { unimplemented!() }
}
pub struct R { pub data: Ghost<Seq<u8>>, pub pos: Ghost<int> }
pub uninterp spec fn be64(x: u64) -> Seq<u8>;
#[verifier::external_body] pub broadcast proof fn ax_be64_len(x: u64) ensures (#[trigger] be64(x)).len() == 8 {}
#[verifier::external_body] pub broadcast proof fn ax_be64_inj(x: u64, y: u64) ensures #[trigger] be64(x) == #[trigger] be64(y) ==> x == y {}
#[verifier::external_body] pub fn u64_to_be_bytes(x: u64) -> (r: [u8; 8]) ensures r@ == be64(x) { x.to_be_bytes() }
impl R {
    // <[u8;32] as Readable>::read and <u64 as Readable>::read (the latter = read_exact + from_be_bytes), as assumed contracts
    #[verifier::external_body]
    pub fn read_32(&mut self) -> (r: Result<[u8; 32], DecodeError>)
        requires 0 <= old(self).pos@
        ensures final(self).data@ == old(self).data@,
            old(self).pos@ + 32 <= old(self).data@.len() ==> r is Ok && r->Ok_0@ == old(self).data@.subrange(old(self).pos@, old(self).pos@ + 32) && final(self).pos@ == old(self).pos@ + 32,
            r is Ok ==> final(self).pos@ == old(self).pos@ + 32
    { unimplemented!() }
    #[verifier::external_body]
    pub fn read_u64(&mut self) -> (r: Result<u64, DecodeError>)
        requires 0 <= old(self).pos@
        ensures final(self).data@ == old(self).data@,
            old(self).pos@ + 8 <= old(self).data@.len() ==> r is Ok && be64(r->Ok_0) == old(self).data@.subrange(old(self).pos@, old(self).pos@ + 8) && final(self).pos@ == old(self).pos@ + 8,
            r is Ok ==> final(self).pos@ == old(self).pos@ + 8
    { unimplemented!() }
}

pub struct CounterpartyCommitmentSecrets { pub old_secrets: [([u8; 32], u64); 49] }

pub open spec fn ser_prefix(s: CounterpartyCommitmentSecrets, k: int) -> Seq<u8> decreases k {
    if k <= 0 { Seq::empty() } else { ser_prefix(s, k - 1) + s.old_secrets[k - 1].0@ + be64(s.old_secrets[k - 1].1) }
}
pub proof fn lemma_prefix_len(s: CounterpartyCommitmentSecrets, k: int)
    requires 0 <= k <= 49 ensures ser_prefix(s, k).len() == 40 * k decreases k
{ broadcast use ax_be64_len; if k > 0 { lemma_prefix_len(s, k - 1); } }

impl CounterpartyCommitmentSecrets {
	fn write(&self, writer: &mut W) -> (r: Result<(), IoError>)
        ensures r is Ok ==> final(writer).log@ == old(writer).log@ + ser_prefix(*self, 49)
    {
		for __x in it: self.old_secrets.iter()     // R12: `for &(ref secret, ref idx) in ...`
            invariant it.seq().len() == 49, forall|k: int| 0 <= k < 49 ==> *it.seq()[k] == self.old_secrets[k],
                writer.log@ == old(writer).log@ + ser_prefix(*self, it.index@),
        {
            let (ref secret, ref idx) = *__x;
			writer.write_all(secret)?;
			writer.write_all(&u64_to_be_bytes(*idx))?;      // R8: idx.to_be_bytes()
            proof { assert(ser_prefix(*self, it.index@ + 1) =~= ser_prefix(*self, it.index@) + secret@ + be64(*idx));
                    assert(writer.log@ =~= old(writer).log@ + ser_prefix(*self, it.index@ + 1)); }
		}
		// write_tlv_fields!(writer, {});   -- empty TLV suffix, handled by the TLV unit
		Ok(())
	}
}
}
fn main() {}
