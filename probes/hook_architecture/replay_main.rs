fn main() {
	let a: Vec<u64> = std::env::args().skip(1).map(|x| x.parse().unwrap()).collect();
	let r = lightning::verif_api::tx_builder::contract_checked_sub_from_funder(a[0] != 0, a[1], a[2], a[3]);
	println!("outcome={:?}", r);
}
