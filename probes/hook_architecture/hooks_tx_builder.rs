// shared contract functions: used by Kani harnesses (cfg(kani)) and by the native replay binary (cfg(ldk_verif))
use super::*;
#[derive(Debug, PartialEq, Eq)]
pub enum Outcome { Vacuous, Holds, Violated }

pub fn contract_checked_sub_from_funder(ob: bool, h: u64, c: u64, s: u64) -> Outcome {
	match checked_sub_from_funder(ob, h, c, s) {
		Ok((h2, c2)) => {
			if h2 as u128 + c2 as u128 + s as u128 == h as u128 + c as u128 && (if ob { c2 == c } else { h2 == h }) { Outcome::Holds } else { Outcome::Violated }
		},
		Err(()) => if (if ob { h < s } else { c < s }) { Outcome::Holds } else { Outcome::Violated },
	}
}
#[cfg(kani)]
#[kani::proof]
fn harness_checked_sub_from_funder() {
	assert!(contract_checked_sub_from_funder(kani::any(), kani::any(), kani::any(), kani::any()) != Outcome::Violated);
}
