use vstd::prelude::*;
verus! {
pub struct H { pub offered: bool, pub cltv_expiry: u32, pub known: bool }
pub const G: u32 = 3;
pub const B: u32 = 36;
pub struct M { pub height: u32, pub cur: Vec<H>, pub cp: Option<Vec<H>> }
impl M {
fn should(&self) -> (r: Option<u32>)
    requires self.height < 1_000_000_000,
      forall|i:int| 0 <= i < self.cur@.len() ==> self.cur@[i].cltv_expiry < 1_000_000_000,
{
    let height = self.height;
    macro_rules! scan {
        ($htlcs: expr, $holder: expr) => {
            for ref htlc in $htlcs {
                let ob = $holder == htlc.offered;
                if (ob && htlc.cltv_expiry + G <= height) || (!ob && htlc.cltv_expiry <= height + B && htlc.known) {
                    return Some(htlc.cltv_expiry);
                }
            }
        }
    }
    scan!(self.cur.iter(), true);
    None
}
}
}
fn main() {}
