// PROBE U05c: FundedChannel::get_last_revoke_and_ack — which secret is released (trace property as precondition of the signer stub)
use vstd::prelude::*;
verus! {
pub const INITIAL_COMMITMENT_NUMBER: u64 = 281474976710655; // R14: folded from `(1 << 48) - 1`
#[derive(Clone, Copy)] pub struct PublicKey(pub [u8; 33]);
#[derive(Clone, Copy)] pub struct ChannelId(pub [u8; 32]);
pub struct BlindedMessagePath {}
pub struct Secp {}
pub struct Logger {}
pub struct InboundState { pub hold: bool }
impl InboundState { pub fn should_hold_htlc(&self) -> (r: bool) ensures r == self.hold { self.hold } }
pub struct InboundHTLCOutput { pub htlc_id: u64, pub state: InboundState }
pub struct RevokeAndACK { pub channel_id: ChannelId, pub per_commitment_secret: [u8; 32], pub next_per_commitment_point: PublicKey, pub release_htlc_message_paths: Vec<(u64, BlindedMessagePath)> }

// the commitment number whose secret may be released right now: the one just superseded (numbers count down)
pub uninterp spec fn releasable(idx: u64) -> bool;
pub struct Signer {}
impl Signer {
    #[verifier::external_body]
    pub fn get_per_commitment_point(&self, idx: u64, secp_ctx: &Secp) -> (r: Result<PublicKey, ()>) { unimplemented!() }
    // (P) trace obligation: every call site must show the index is the releasable one
    #[verifier::external_body]
    pub fn release_commitment_secret(&self, idx: u64) -> (r: Result<[u8; 32], ()>)
        requires releasable(idx)
    { unimplemented!() }
}
#[derive(Clone, Copy)]
pub struct HolderCommitmentPoint { pub next_transaction_number: u64, pub current_point: Option<PublicKey>, pub next_point: PublicKey, pub pending_next_point: Option<PublicKey>,
	pub previous_revoked_point: Option<PublicKey>, pub last_revoked_point: Option<PublicKey> }
impl HolderCommitmentPoint {
	pub fn can_advance(&self) -> (r: bool) ensures r == self.pending_next_point is Some { self.pending_next_point.is_some() }
	pub fn next_transaction_number(&self) -> (r: u64) ensures r == self.next_transaction_number { self.next_transaction_number }
	pub fn next_point(&self) -> (r: PublicKey) ensures r == self.next_point { self.next_point }
    #[verifier::external_body]
	pub fn try_resolve_pending(&mut self, signer: &Signer, secp_ctx: &Secp, logger: &Logger)
        ensures final(self).next_transaction_number == old(self).next_transaction_number, final(self).next_point == old(self).next_point
    { unimplemented!() }
}
pub struct Context { pub holder_signer: Signer, pub secp_ctx: Secp, pub pending_inbound_htlcs: Vec<InboundHTLCOutput>, pub signer_pending_revoke_and_ack: bool, pub channel_id: ChannelId }
pub struct FundedChannel { pub context: Context, pub holder_commitment_point: HolderCommitmentPoint }
pub struct PathFn {}
impl PathFn { #[verifier::external_body] pub fn call(&self, id: u64) -> BlindedMessagePath { unimplemented!() } }

impl FundedChannel {
	fn get_last_revoke_and_ack(
		&mut self, path_for_release_htlc: PathFn, logger: &Logger,
	) -> (r: Option<RevokeAndACK>)
        requires
            old(self).holder_commitment_point.next_transaction_number <= INITIAL_COMMITMENT_NUMBER - 2,
            // the commitment that may be revoked now is the one before the current one: current = next + 1, revoked = next + 2
            releasable((old(self).holder_commitment_point.next_transaction_number + 2) as u64),
            forall|i: u64| i != old(self).holder_commitment_point.next_transaction_number + 2 ==> !releasable(i),
        ensures
            r is Some ==> r->Some_0.next_per_commitment_point == old(self).holder_commitment_point.next_point,
            final(self).holder_commitment_point.next_transaction_number == old(self).holder_commitment_point.next_transaction_number,
    {
		debug_assert!(
			self.holder_commitment_point.next_transaction_number() <= INITIAL_COMMITMENT_NUMBER - 2
		);
		let signer = &self.context.holder_signer;
		self.holder_commitment_point.try_resolve_pending(signer, &self.context.secp_ctx, logger);
		let per_commitment_secret = signer
			.release_commitment_secret(self.holder_commitment_point.next_transaction_number() + 2)
			.ok();
		if let Some(per_commitment_secret) = per_commitment_secret {
			if self.holder_commitment_point.can_advance() {
				let mut release_htlc_message_paths = Vec::new();
				for htlc in &self.context.pending_inbound_htlcs {
					if htlc.state.should_hold_htlc() {
						let path = path_for_release_htlc.call(htlc.htlc_id);
						release_htlc_message_paths.push((htlc.htlc_id, path));
					}
				}

				self.context.signer_pending_revoke_and_ack = false;
				return Some(RevokeAndACK {
					channel_id: self.context.channel_id,
					per_commitment_secret,
					next_per_commitment_point: self.holder_commitment_point.next_point(),
					release_htlc_message_paths,
				});
			}
		}
		None
	}
}
}
fn main() {}
