// PROBE U03: PendingOutboundPayment state machine (bodies verbatim; R7 or-pattern splitting; foreign payload types opaque)
use vstd::prelude::*;
use std::collections::HashSet;
verus! {


// ---- env (trusted): [u8;32] hashes/compares lawfully ----
#[verifier::external_body]
pub proof fn axiom_u8_32_key_model() ensures vstd::std_specs::hash::obeys_key_model::<[u8;32]>() {}
broadcast use vstd::std_specs::hash::group_hash_axioms;
// ---- env: opaque foreign types ----
#[verifier::external_body] pub struct StaleExpiration {}
#[verifier::external_body] pub struct Retry {}
#[verifier::external_body] pub struct RouteParametersConfig {}
#[verifier::external_body] pub struct RetryableInvoiceRequest {}
#[verifier::external_body] pub struct RouteParameters {}
#[verifier::external_body] pub struct InvoiceRequest {}
#[verifier::external_body] pub struct StaticInvoice {}
#[verifier::external_body] pub struct PaymentAttempts {}
#[verifier::external_body] pub struct PaymentParameters {}
#[verifier::external_body] pub struct PaidBolt12Invoice {}
#[verifier::external_body] pub struct Duration {}
#[verifier::external_body] pub struct StringT {}
#[derive(Clone, Copy)] pub struct PaymentHash(pub [u8; 32]);
#[derive(Clone, Copy)] pub struct PaymentPreimage(pub [u8; 32]);
#[derive(Clone, Copy)] pub struct PaymentSecret(pub [u8; 32]);
#[derive(Clone, Copy)] pub enum PaymentFailureReason { RecipientRejected, UserAbandoned, RetriesExhausted, PaymentExpired, RouteNotFound, UnexpectedError }
pub struct Path { pub v: u64, pub f: u64 }
impl Path {
    #[verifier::external_body] pub fn final_value_msat(&self) -> (r: u64) ensures r == self.v { self.v }
    #[verifier::external_body] pub fn fee_msat(&self) -> (r: u64) ensures r == self.f { self.f }
}
#[verifier::external_body]
fn new_hash_set() -> (r: HashSet<[u8; 32]>) ensures r@ == Set::<[u8;32]>::empty() { HashSet::new() }

#[allow(inconsistent_fields)]
pub enum PendingOutboundPayment {
	Legacy { session_privs: HashSet<[u8; 32]> },
	AwaitingOffer { expiration: StaleExpiration, retry_strategy: Retry, route_params_config: RouteParametersConfig, amount_msats: u64, payer_note: Option<StringT> },
	AwaitingInvoice { expiration: StaleExpiration, retry_strategy: Retry, route_params_config: RouteParametersConfig, retryable_invoice_request: Option<RetryableInvoiceRequest> },
	InvoiceReceived { payment_hash: PaymentHash, retry_strategy: Retry, route_params_config: RouteParametersConfig },
	StaticInvoiceReceived { payment_hash: PaymentHash, keysend_preimage: PaymentPreimage, retry_strategy: Retry, route_params: RouteParameters, invoice_request: InvoiceRequest, static_invoice: StaticInvoice, expiry_time: Duration },
	Retryable {
		retry_strategy: Option<Retry>, attempts: PaymentAttempts, payment_params: Option<PaymentParameters>,
		session_privs: HashSet<[u8; 32]>, payment_hash: PaymentHash, payment_secret: Option<PaymentSecret>,
		payment_metadata: Option<Vec<u8>>, keysend_preimage: Option<PaymentPreimage>, invoice_request: Option<InvoiceRequest>,
		bolt12_invoice: Option<PaidBolt12Invoice>, custom_tlvs: Vec<(u64, Vec<u8>)>,
		pending_amt_msat: u64, pending_fee_msat: Option<u64>, total_msat: u64, onion_total_msat: u64,
		starting_block_height: u32, remaining_max_total_routing_fee_msat: Option<u64>,
	},
	Fulfilled { session_privs: HashSet<[u8; 32]>, payment_hash: Option<PaymentHash>, timer_ticks_without_htlcs: u8, total_msat: Option<u64>, fee_paid_msat: Option<u64> },
	Abandoned { session_privs: HashSet<[u8; 32]>, payment_hash: PaymentHash, reason: Option<PaymentFailureReason>, total_msat: Option<u64>, pending_fee_msat: Option<u64> },
}

impl PendingOutboundPayment {
    // ---- abstract view ----
    pub open spec fn has_htlcs_state(&self) -> bool { self is Legacy || self is Retryable || self is Fulfilled || self is Abandoned }
    pub open spec fn privs(&self) -> Set<[u8;32]> {
        match self {
            PendingOutboundPayment::Legacy { session_privs } => session_privs@,
            PendingOutboundPayment::Retryable { session_privs, .. } => session_privs@,
            PendingOutboundPayment::Fulfilled { session_privs, .. } => session_privs@,
            PendingOutboundPayment::Abandoned { session_privs, .. } => session_privs@,
            _ => Set::empty(),
        }
    }
    pub open spec fn spec_total(&self) -> Option<u64> {
        match self {
			PendingOutboundPayment::Retryable { total_msat, .. } => Some(*total_msat),
			PendingOutboundPayment::Fulfilled { total_msat, .. } => *total_msat,
			PendingOutboundPayment::Abandoned { total_msat, .. } => *total_msat,
			_ => None,
        }
    }
    pub open spec fn spec_fee(&self) -> Option<u64> {
        match self {
			PendingOutboundPayment::Retryable { pending_fee_msat, .. } => *pending_fee_msat,
			PendingOutboundPayment::Abandoned { pending_fee_msat, .. } => *pending_fee_msat,
			PendingOutboundPayment::Fulfilled { fee_paid_msat, .. } => *fee_paid_msat,
			_ => None,
        }
    }
    pub open spec fn spec_hash(&self) -> Option<PaymentHash> {
		match self {
			PendingOutboundPayment::Legacy { .. } => None,
			PendingOutboundPayment::AwaitingOffer { .. } => None,
			PendingOutboundPayment::AwaitingInvoice { .. } => None,
			PendingOutboundPayment::InvoiceReceived { payment_hash, .. } => Some(*payment_hash),
			PendingOutboundPayment::StaticInvoiceReceived { payment_hash, .. } => Some(*payment_hash),
			PendingOutboundPayment::Retryable { payment_hash, .. } => Some(*payment_hash),
			PendingOutboundPayment::Fulfilled { payment_hash, .. } => *payment_hash,
			PendingOutboundPayment::Abandoned { payment_hash, .. } => Some(*payment_hash),
		}
    }

	pub fn is_fulfilled(&self) -> (r: bool) ensures r == (self is Fulfilled) {
		match self {
			PendingOutboundPayment::Fulfilled { .. } => true,
			_ => false,
		}
	}
	pub fn abandoned(&self) -> (r: bool) ensures r == (self is Abandoned) {
		match self {
			PendingOutboundPayment::Abandoned { .. } => true,
			_ => false,
		}
	}
	fn get_pending_fee_msat(&self) -> (r: Option<u64>) ensures r == self.spec_fee() {
		match self {
			PendingOutboundPayment::Retryable { pending_fee_msat, .. } => pending_fee_msat.clone(),
			PendingOutboundPayment::Abandoned { pending_fee_msat, .. } => pending_fee_msat.clone(),
			PendingOutboundPayment::Fulfilled { fee_paid_msat, .. } => fee_paid_msat.clone(),
			_ => None,
		}
	}
	fn total_msat(&self) -> (r: Option<u64>) ensures r == self.spec_total() {
		match self {
			PendingOutboundPayment::Retryable { total_msat, .. } => Some(*total_msat),
			PendingOutboundPayment::Fulfilled { total_msat, .. } => *total_msat,
			PendingOutboundPayment::Abandoned { total_msat, .. } => *total_msat,
			_ => None,
		}
	}
	fn payment_hash(&self) -> (r: Option<PaymentHash>) ensures r == self.spec_hash() {
		match self {
			PendingOutboundPayment::Legacy { .. } => None,
			PendingOutboundPayment::AwaitingOffer { .. } => None,
			PendingOutboundPayment::AwaitingInvoice { .. } => None,
			PendingOutboundPayment::InvoiceReceived { payment_hash, .. } => Some(*payment_hash),
			PendingOutboundPayment::StaticInvoiceReceived { payment_hash, .. } => Some(*payment_hash),
			PendingOutboundPayment::Retryable { payment_hash, .. } => Some(*payment_hash),
			PendingOutboundPayment::Fulfilled { payment_hash, .. } => *payment_hash,
			PendingOutboundPayment::Abandoned { payment_hash, .. } => Some(*payment_hash),
		}
	}

	fn mark_fulfilled(&mut self)
        requires old(self).has_htlcs_state()
        ensures (*final(self)) is Fulfilled,
            final(self).privs() == old(self).privs(),                 // no in-flight part forgotten
            final(self).spec_hash() == old(self).spec_hash(),
            final(self).spec_total() == old(self).spec_total(),
            final(self).spec_fee() == old(self).spec_fee(),
    {
		let mut session_privs = new_hash_set();
		core::mem::swap(&mut session_privs, match self {
			PendingOutboundPayment::Legacy { session_privs } => session_privs,
			PendingOutboundPayment::Retryable { session_privs, .. } => session_privs,
			PendingOutboundPayment::Fulfilled { session_privs, .. } => session_privs,
			PendingOutboundPayment::Abandoned { session_privs, .. } => session_privs,
			PendingOutboundPayment::AwaitingOffer { .. } => { debug_assert!(false); return; },
			PendingOutboundPayment::AwaitingInvoice { .. } => { debug_assert!(false); return; },
			PendingOutboundPayment::InvoiceReceived { .. } => { debug_assert!(false); return; },
			PendingOutboundPayment::StaticInvoiceReceived { .. } => { debug_assert!(false); return; },
		});
		let payment_hash = self.payment_hash();
		let total_msat = self.total_msat();
		let fee_paid_msat = self.get_pending_fee_msat();
		*self = PendingOutboundPayment::Fulfilled { session_privs, payment_hash, timer_ticks_without_htlcs: 0, total_msat, fee_paid_msat };
	}

	fn mark_abandoned(&mut self, reason: PaymentFailureReason)
        ensures
            // (P) never contradicted: a fulfilled payment stays fulfilled, untouched
            (*old(self)) is Fulfilled ==> *final(self) == *old(self),
            (*old(self)) is Abandoned ==> *final(self) == *old(self),
            (*old(self)) is Retryable ==> (*final(self)) is Abandoned
                && final(self).privs() == old(self).privs()
                && final(self).spec_hash() == old(self).spec_hash()
                && final(self).spec_total() == old(self).spec_total()
                && final(self).spec_fee() == old(self).spec_fee(),
            (*final(self)) is Fulfilled <==> (*old(self)) is Fulfilled,
    {
		let session_privs = match self {
			PendingOutboundPayment::Retryable { session_privs, .. } => {
				let mut our_session_privs = new_hash_set();
				core::mem::swap(&mut our_session_privs, session_privs);
				our_session_privs
			},
			_ => new_hash_set(),
		};
		let total_msat = self.total_msat();
		let pending_fee_msat = self.get_pending_fee_msat();
		match self {
			Self::Retryable { payment_hash, .. } =>
			{
				*self = Self::Abandoned {
					session_privs,
					payment_hash: *payment_hash,
					reason: Some(reason),
					total_msat,
					pending_fee_msat,
				};
			},
			Self::InvoiceReceived { payment_hash, .. } =>
			{
				*self = Self::Abandoned {
					session_privs,
					payment_hash: *payment_hash,
					reason: Some(reason),
					total_msat,
					pending_fee_msat,
				};
			},
			Self::StaticInvoiceReceived { payment_hash, .. } =>
			{
				*self = Self::Abandoned {
					session_privs,
					payment_hash: *payment_hash,
					reason: Some(reason),
					total_msat,
					pending_fee_msat,
				};
			},
			_ => {}
		}
	}
}
impl PendingOutboundPayment {
    pub open spec fn spec_pending_amt(&self) -> int { match self { PendingOutboundPayment::Retryable { pending_amt_msat, .. } => *pending_amt_msat as int, _ => 0 } }

	fn remove(&mut self, session_priv: &[u8; 32], path: Option<&Path>) -> (r: bool)
        requires old(self).has_htlcs_state(),
            (*old(self)) is Retryable && old(self).privs().contains(*session_priv) ==> path is Some
                && old(self)->Retryable_pending_amt_msat >= path->Some_0.v
                && (old(self)->Retryable_pending_fee_msat is Some ==> old(self)->Retryable_pending_fee_msat->Some_0 >= path->Some_0.f),
        ensures
            r == old(self).privs().contains(*session_priv),
            final(self).privs() == old(self).privs().remove(*session_priv),
            // the variant never changes here
            (*final(self)) is Fulfilled <==> (*old(self)) is Fulfilled,
            (*final(self)) is Abandoned <==> (*old(self)) is Abandoned,
            (*final(self)) is Retryable <==> (*old(self)) is Retryable,
            (*final(self)) is Legacy <==> (*old(self)) is Legacy,
            final(self).spec_hash() == old(self).spec_hash(),
            final(self).spec_total() == old(self).spec_total(),
            (*old(self)) is Retryable ==> final(self).spec_pending_amt() == old(self).spec_pending_amt() - (if r { path->Some_0.v as int } else { 0 }),
            !((*old(self)) is Retryable) ==> final(self).spec_fee() == old(self).spec_fee(),
    {
        proof { axiom_u8_32_key_model(); }
		let remove_res = match self {
			PendingOutboundPayment::Legacy { session_privs } => { session_privs.remove(session_priv) },
			PendingOutboundPayment::Retryable { session_privs, .. } => { session_privs.remove(session_priv) },
			PendingOutboundPayment::Fulfilled { session_privs, .. } => { session_privs.remove(session_priv) },
			PendingOutboundPayment::Abandoned { session_privs, .. } => {
					session_privs.remove(session_priv)
				},
			PendingOutboundPayment::AwaitingOffer { .. } => { debug_assert!(false); false },
			PendingOutboundPayment::AwaitingInvoice { .. } => { debug_assert!(false); false },
			PendingOutboundPayment::InvoiceReceived { .. } => { debug_assert!(false); false },
			PendingOutboundPayment::StaticInvoiceReceived { .. } => { debug_assert!(false); false },
		};
		if remove_res {
			if let PendingOutboundPayment::Retryable {
				ref mut pending_amt_msat, ref mut pending_fee_msat,
				ref mut remaining_max_total_routing_fee_msat, ..
			} = self {
				let path = path.expect("Removing a failed payment should always come with a path");
				*pending_amt_msat -= path.final_value_msat();
				let path_fee_msat = path.fee_msat();
				if let Some(fee_msat) = pending_fee_msat.as_mut() {
					*fee_msat -= path_fee_msat;
				}

				if let Some(max_total_routing_fee_msat) = remaining_max_total_routing_fee_msat.as_mut() {
					*max_total_routing_fee_msat = max_total_routing_fee_msat.saturating_add(path_fee_msat);
				}
			}
		}
		remove_res
	}

	pub fn insert(&mut self, session_priv: [u8; 32], path: &Path) -> (r: bool)
        requires !((*old(self)) is AwaitingOffer || (*old(self)) is AwaitingInvoice || (*old(self)) is InvoiceReceived || (*old(self)) is StaticInvoiceReceived),
            (*old(self)) is Retryable ==> old(self)->Retryable_pending_amt_msat + path.v <= u64::MAX
                && (old(self)->Retryable_pending_fee_msat is Some ==> old(self)->Retryable_pending_fee_msat->Some_0 + path.f <= u64::MAX),
        ensures
            // (P) a resolved payment cannot acquire new in-flight parts
            (*old(self)) is Fulfilled || (*old(self)) is Abandoned ==> !r && *final(self) == *old(self),
            (*old(self)) is Legacy || (*old(self)) is Retryable ==> r == !old(self).privs().contains(session_priv)
                && final(self).privs() == old(self).privs().insert(session_priv),
            (*final(self)) is Retryable <==> (*old(self)) is Retryable,
            (*old(self)) is Retryable ==> final(self).spec_pending_amt() == old(self).spec_pending_amt() + (if r { path.v as int } else { 0 }),
    {
        proof { axiom_u8_32_key_model(); }
		let insert_res = match self {
			PendingOutboundPayment::Legacy { session_privs } => { session_privs.insert(session_priv) },
			PendingOutboundPayment::Retryable { session_privs, .. } => {
					session_privs.insert(session_priv)
				},
			PendingOutboundPayment::AwaitingOffer { .. } => { debug_assert!(false); false },
			PendingOutboundPayment::AwaitingInvoice { .. } => { debug_assert!(false); false },
			PendingOutboundPayment::InvoiceReceived { .. } => { debug_assert!(false); false },
			PendingOutboundPayment::StaticInvoiceReceived { .. } => { debug_assert!(false); false },
			PendingOutboundPayment::Fulfilled { .. } => false,
			PendingOutboundPayment::Abandoned { .. } => false,
		};
		if insert_res {
			if let PendingOutboundPayment::Retryable {
				ref mut pending_amt_msat, ref mut pending_fee_msat,
				ref mut remaining_max_total_routing_fee_msat, ..
			} = self {
					*pending_amt_msat += path.final_value_msat();
					let path_fee_msat = path.fee_msat();
					if let Some(fee_msat) = pending_fee_msat.as_mut() {
						*fee_msat += path_fee_msat;
					}

					if let Some(max_total_routing_fee_msat) = remaining_max_total_routing_fee_msat.as_mut() {
						*max_total_routing_fee_msat = max_total_routing_fee_msat.saturating_sub(path_fee_msat);
					}
			}
		}
		insert_res
	}
}

}
fn main() {}
