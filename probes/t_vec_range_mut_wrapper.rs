use vstd::prelude::*;
verus! {
#[verifier::external_body]
pub fn vec_range_mut<'a>(v: &'a mut Vec<u8>, start: usize, end: usize) -> (s: &'a mut [u8])
    requires start <= end <= old(v).len()
    ensures s@ == old(v)@.subrange(start as int, end as int),
            final(s)@.len() == s@.len(),
            final(v)@ == old(v)@.take(start as int) + final(s)@ + old(v)@.skip(end as int),
{ &mut v[start..end] }

#[verifier::external_body]
fn fill(res: &mut [u8]) ensures final(res).len() == old(res).len(), forall|i: int| 0 <= i < final(res).len() ==> final(res)[i] == 7 { }
fn g(v: &mut Vec<u8>)
  requires old(v).len() >= 20
{
    let ghost pre = v@;
    {
        let s = vec_range_mut(v, 0, 18);
        assert(s.len() == 18);
        fill(s);
    }
    assert(v.len() == pre.len());
    assert(v[0] == 7);
    assert(v[19] == pre[19]);
}
}
fn main() {}
