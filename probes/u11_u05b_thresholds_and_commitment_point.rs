// PROBE U11 (confirmation thresholds) and U05b (HolderCommitmentPoint), bodies verbatim
use vstd::prelude::*;
verus! {
use vstd::std_specs::cmp::*;
pub assume_specification<T: core::cmp::Ord>[core::cmp::max::<T>](a: T, b: T) -> (r: T)
    ensures T::obeys_cmp_spec() ==> r == (if b.cmp_spec(&a) == core::cmp::Ordering::Less { a } else { b });
pub const ANTI_REORG_DELAY: u32 = 6;

// ---------- U11: channelmonitor::OnchainEventEntry ----------
pub struct DelayedPaymentOutputDescriptor { pub to_self_delay: u16 }
pub struct StaticPaymentOutputDescriptor {}
pub enum SpendableOutputDescriptor { StaticOutput { x: u8 }, DelayedPaymentOutput(DelayedPaymentOutputDescriptor), StaticPaymentOutput(StaticPaymentOutputDescriptor) }
pub enum OnchainEvent {
    HTLCUpdate { x: u8 },
    MaturingOutput { descriptor: SpendableOutputDescriptor },
    FundingSpendConfirmation { on_local_output_csv: Option<u16>, y: u8 },
    HTLCSpendConfirmation { on_to_local_output_csv: Option<u16>, z: u8 },
    AlternativeFundingConfirmation {},
}
pub struct BlockLocator { pub height: u32 }
pub struct OnchainEventEntry { pub height: u32, pub event: OnchainEvent }

pub open spec fn csv_of(e: OnchainEvent) -> int {
    match e {
        OnchainEvent::MaturingOutput { descriptor: SpendableOutputDescriptor::DelayedPaymentOutput(d) } => d.to_self_delay as int,
        OnchainEvent::FundingSpendConfirmation { on_local_output_csv: Some(csv), .. } => csv as int,
        OnchainEvent::HTLCSpendConfirmation { on_to_local_output_csv: Some(csv), .. } => csv as int,
        _ => 0,
    }
}
impl OnchainEventEntry {
	fn confirmation_threshold(&self) -> (r: u32)
        requires 1 <= self.height <= 0x7fff_ffff
        ensures r as int == (if csv_of(self.event) > ANTI_REORG_DELAY { self.height + csv_of(self.event) - 1 } else { self.height + ANTI_REORG_DELAY - 1 }),
    {
		let mut conf_threshold = self.height + ANTI_REORG_DELAY - 1;
		match self.event {
			OnchainEvent::MaturingOutput {
				descriptor: SpendableOutputDescriptor::DelayedPaymentOutput(ref descriptor)
			} => {
				conf_threshold = core::cmp::max(conf_threshold, self.height + descriptor.to_self_delay as u32 - 1);
			},
			OnchainEvent::FundingSpendConfirmation { on_local_output_csv: Some(csv), .. } => {
				conf_threshold = core::cmp::max(conf_threshold, self.height + csv as u32 - 1);
			},
			OnchainEvent::HTLCSpendConfirmation { on_to_local_output_csv: Some(csv), .. } => {
				conf_threshold = core::cmp::max(conf_threshold, self.height + csv as u32 - 1);
			},
			_ => {},
		}
		conf_threshold
	}

	fn has_reached_confirmation_threshold(&self, best_block: &BlockLocator) -> (r: bool)
        requires 1 <= self.height <= 0x7fff_ffff
        ensures
            // (P) irreversible conclusions only once buried by the anti-reorg depth (confirmations = best - height + 1)
            r ==> best_block.height as int - self.height as int + 1 >= ANTI_REORG_DELAY,
            r ==> best_block.height as int - self.height as int + 1 >= csv_of(self.event),
            r <==> (best_block.height as int - self.height as int + 1 >= ANTI_REORG_DELAY && best_block.height as int - self.height as int + 1 >= csv_of(self.event)),
    {
		best_block.height >= self.confirmation_threshold()
	}
}

// ---------- U05b: channel::HolderCommitmentPoint ----------
#[derive(Clone, Copy)] pub struct PublicKey(pub [u8; 33]);
pub struct Signer {}
pub struct Secp {}
pub struct Logger {}
impl Signer {
    #[verifier::external_body]
    pub fn get_per_commitment_point(&self, idx: u64, secp_ctx: &Secp) -> (r: Result<PublicKey, ()>) { unimplemented!() }
}
#[derive(Clone, Copy)]
pub struct HolderCommitmentPoint {
	pub next_transaction_number: u64,
	pub current_point: Option<PublicKey>,
	pub next_point: PublicKey,
	pub pending_next_point: Option<PublicKey>,
	pub previous_revoked_point: Option<PublicKey>,
	pub last_revoked_point: Option<PublicKey>,
}
impl HolderCommitmentPoint {
	pub fn can_advance(&self) -> (r: bool) ensures r == self.pending_next_point is Some {
		self.pending_next_point.is_some()
	}
	pub fn try_resolve_pending(
		&mut self, signer: &Signer, secp_ctx: &Secp, logger: &Logger,
	)
        requires old(self).next_transaction_number >= 1
        ensures final(self).next_transaction_number == old(self).next_transaction_number,
            final(self).current_point == old(self).current_point, final(self).next_point == old(self).next_point,
            final(self).previous_revoked_point == old(self).previous_revoked_point, final(self).last_revoked_point == old(self).last_revoked_point,
            old(self).pending_next_point is Some ==> final(self).pending_next_point == old(self).pending_next_point,
    {
		if !self.can_advance() {
			let pending_next_point =
				signer.get_per_commitment_point(self.next_transaction_number - 1, secp_ctx);
			if let Ok(point) = pending_next_point {
				self.pending_next_point = Some(point);
			} else {
			}
		}
	}
	pub fn advance(
		&mut self, signer: &Signer, secp_ctx: &Secp, logger: &Logger,
	) -> (r: Result<(), ()>)
        requires old(self).next_transaction_number >= 2
        ensures
            // (P) commitment numbers advance by exactly one, and only when the next point is available
            r is Ok <==> old(self).pending_next_point is Some,
            r is Ok ==> final(self).next_transaction_number == old(self).next_transaction_number - 1
                && final(self).current_point == Some(old(self).next_point)
                && final(self).next_point == old(self).pending_next_point->Some_0
                && final(self).last_revoked_point == old(self).current_point
                && final(self).previous_revoked_point == old(self).last_revoked_point,
            r is Err ==> *final(self) == *old(self),
    {
		if let Some(next_point) = self.pending_next_point {
			*self = Self {
				next_transaction_number: self.next_transaction_number - 1,
				previous_revoked_point: self.last_revoked_point,
				last_revoked_point: self.current_point,
				current_point: Some(self.next_point),
				next_point,
				pending_next_point: None,
			};

			self.try_resolve_pending(signer, secp_ctx, logger);
			return Ok(());
		}
		Err(())
	}
}
}
fn main() {}
