use vstd::prelude::*;
verus! {
pub enum D { A(u32), B { x: u32, pre: Option<u8> }, C }
pub struct T { pub inputs: Vec<(u64, D)>, pub h: u32 }
impl T {
    fn timer(&self, cur: u32) -> (r: u32)
        requires cur < 1_000_000_000
        ensures r > cur
    {
        let mut t = cur + 15;
        let f = |target: u32| -> (o: u32) ensures o > cur, o <= cur + 15 { if target <= cur + 3 { cur + 1 } else if target <= cur + 15 { cur + 3 } else { cur + 15 } };
        for (_, input) in self.inputs.iter()
            invariant t > cur, cur < 1_000_000_000, forall|x: u32| f.requires((x,)), forall|x: u32, o: u32| f.ensures((x,), o) ==> o > cur
        {
            match input {
                D::A(_) => { let v = f(self.h); if v < t { t = v; } },
                D::B { x, .. } if *x > 3 => { },
                D::B { x, pre } => { },
                D::C => {},
            }
        }
        t
    }
}
}
fn main() {}
