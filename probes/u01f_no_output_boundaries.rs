// PROBE for unit U01c (hand-applied rewrites R1-R6 to tx_builder.rs functions; not the machinery)
use vstd::prelude::*;
verus! {
use vstd::std_specs::cmp::*;
pub assume_specification<T: core::cmp::Ord>[core::cmp::min::<T>](a: T, b: T) -> (r: T)
    ensures T::obeys_cmp_spec() ==> r == (if b.cmp_spec(&a) == core::cmp::Ordering::Less { b } else { a });
pub assume_specification<T: core::cmp::Ord>[core::cmp::max::<T>](a: T, b: T) -> (r: T)
    ensures T::obeys_cmp_spec() ==> r == (if b.cmp_spec(&a) == core::cmp::Ordering::Less { a } else { b });

// ---------------- env (trusted) ----------------
pub struct ChannelTypeFeatures { pub anchors: bool, pub zfc: bool }
impl ChannelTypeFeatures {
    #[verifier::external_body]
    pub fn supports_anchors_zero_fee_htlc_tx(&self) -> (r: bool) ensures r == self.anchors { self.anchors }
    #[verifier::external_body]
    pub fn supports_anchor_zero_fee_commitments(&self) -> (r: bool) ensures r == self.zfc { self.zfc }
}
pub const ANCHOR_OUTPUT_VALUE_SATOSHI: u64 = 330;
pub const COMMITMENT_TX_WEIGHT_PER_HTLC: u64 = 172;
pub const FEE_SPIKE_BUFFER_FEE_INCREASE_MULTIPLE: u64 = 2;

// ---------------- specs ----------------
pub open spec fn base_weight(ct: &ChannelTypeFeatures) -> int { if ct.anchors { 1124 } else { 724 } }
pub open spec fn commit_fee_spec(feerate: int, n: int, ct: &ChannelTypeFeatures) -> int {
    feerate * (base_weight(ct) + n * 172) / 1000
}
pub open spec fn success_w(ct: &ChannelTypeFeatures) -> int { if ct.anchors { 706 } else { 703 } }
pub open spec fn timeout_w(ct: &ChannelTypeFeatures) -> int { if ct.anchors { 666 } else { 663 } }
pub open spec fn second_stage_spec(ct: &ChannelTypeFeatures, feerate: int) -> (int, int) {
    if ct.anchors || ct.zfc { (0, 0) } else { (feerate * success_w(ct) / 1000, feerate * timeout_w(ct) / 1000) }
}
pub open spec fn anchors_spec(ct: &ChannelTypeFeatures) -> int { if ct.anchors { 660 } else { 0 } }

pub struct HTLCAmountDirection { pub outbound: bool, pub amount_msat: u64 }

pub open spec fn is_dust_spec(h: HTLCAmountDirection, local: bool, feerate: int, dust: int, ct: &ChannelTypeFeatures) -> bool {
    let (s, t) = second_stage_spec(ct, feerate);
    let f = if h.outbound == local { t } else { s };
    (h.amount_msat as int) / 1000 < dust + f
}

pub open spec fn sum_if(s: Seq<HTLCAmountDirection>, p: spec_fn(HTLCAmountDirection) -> bool) -> int
    decreases s.len()
{
    if s.len() == 0 { 0 } else { sum_if(s.drop_last(), p) + (if p(s.last()) { s.last().amount_msat as int } else { 0 }) }
}
pub open spec fn cnt_if(s: Seq<HTLCAmountDirection>, p: spec_fn(HTLCAmountDirection) -> bool) -> int
    decreases s.len()
{
    if s.len() == 0 { 0 } else { cnt_if(s.drop_last(), p) + (if p(s.last()) { 1int } else { 0 }) }
}
pub open spec fn total(s: Seq<HTLCAmountDirection>) -> int { sum_if(s, |h: HTLCAmountDirection| true) }

pub proof fn lemma_step(s: Seq<HTLCAmountDirection>, i: int, p: spec_fn(HTLCAmountDirection) -> bool)
    requires 0 <= i < s.len()
    ensures sum_if(s.take(i + 1), p) == sum_if(s.take(i), p) + (if p(s[i]) { s[i].amount_msat as int } else { 0 }),
            cnt_if(s.take(i + 1), p) == cnt_if(s.take(i), p) + (if p(s[i]) { 1int } else { 0 }),
{
    assert(s.take(i + 1).drop_last() =~= s.take(i));
}
pub proof fn lemma_bounds(s: Seq<HTLCAmountDirection>, p: spec_fn(HTLCAmountDirection) -> bool)
    ensures 0 <= sum_if(s, p) <= total(s), 0 <= cnt_if(s, p) <= s.len()
    decreases s.len()
{
    if s.len() > 0 { lemma_bounds(s.drop_last(), p); }
}
pub proof fn lemma_prefix_bounds(s: Seq<HTLCAmountDirection>, i: int, p: spec_fn(HTLCAmountDirection) -> bool)
    requires 0 <= i <= s.len()
    ensures 0 <= sum_if(s.take(i), p) <= total(s), 0 <= cnt_if(s.take(i), p) <= i
    decreases s.len() - i
{
    lemma_bounds(s.take(i), p);
    lemma_total_prefix(s, i);
}
pub proof fn lemma_total_prefix(s: Seq<HTLCAmountDirection>, i: int)
    requires 0 <= i <= s.len()
    ensures total(s.take(i)) <= total(s)
    decreases s.len() - i
{
    if i < s.len() { lemma_total_prefix(s, i + 1); lemma_step(s, i, |h: HTLCAmountDirection| true); }
    else { assert(s.take(i) =~= s); }
}
pub proof fn lemma_split(s: Seq<HTLCAmountDirection>)
    ensures sum_if(s, |h: HTLCAmountDirection| h.outbound) + sum_if(s, |h: HTLCAmountDirection| !h.outbound) == total(s)
    decreases s.len()
{
    if s.len() > 0 { lemma_split(s.drop_last()); }
}

// ---------------- chan_utils (verbatim) ----------------
pub fn htlc_success_tx_weight(channel_type_features: &ChannelTypeFeatures) -> (r: u64)
    ensures r == success_w(channel_type_features)
{
	const HTLC_SUCCESS_TX_WEIGHT: u64 = 703;
	const HTLC_SUCCESS_ANCHOR_TX_WEIGHT: u64 = 706;
	if channel_type_features.supports_anchors_zero_fee_htlc_tx() { HTLC_SUCCESS_ANCHOR_TX_WEIGHT } else { HTLC_SUCCESS_TX_WEIGHT }
}
pub fn htlc_timeout_tx_weight(channel_type_features: &ChannelTypeFeatures) -> (r: u64)
    ensures r == timeout_w(channel_type_features)
{
	const HTLC_TIMEOUT_TX_WEIGHT: u64 = 663;
	const HTLC_TIMEOUT_ANCHOR_TX_WEIGHT: u64 = 666;
	if channel_type_features.supports_anchors_zero_fee_htlc_tx() { HTLC_TIMEOUT_ANCHOR_TX_WEIGHT } else { HTLC_TIMEOUT_TX_WEIGHT }
}
pub fn commitment_tx_base_weight(channel_type_features: &ChannelTypeFeatures) -> (r: u64)
    ensures r == base_weight(channel_type_features)
{
	const COMMITMENT_TX_BASE_WEIGHT: u64 = 724;
	const COMMITMENT_TX_BASE_ANCHOR_WEIGHT: u64 = 1124;
	if channel_type_features.supports_anchors_zero_fee_htlc_tx() { COMMITMENT_TX_BASE_ANCHOR_WEIGHT } else { COMMITMENT_TX_BASE_WEIGHT }
}
pub fn commit_tx_fee_sat(feerate_per_kw: u32, num_htlcs: usize, channel_type_features: &ChannelTypeFeatures) -> (r: u64)
    requires num_htlcs <= 100_000,
    ensures r == commit_fee_spec(feerate_per_kw as int, num_htlcs as int, channel_type_features),
            r <= 0xffff_ffff * 17_300,
{
    proof {
        assert(feerate_per_kw as int * (base_weight(channel_type_features) + num_htlcs as int * 172) <= 0xffff_ffff * (1124 + 100_000 * 172)) by (nonlinear_arith)
            requires 0 <= feerate_per_kw <= 0xffff_ffff, 0 <= num_htlcs <= 100_000, 0 < base_weight(channel_type_features) <= 1124;
        assert(feerate_per_kw as int * (base_weight(channel_type_features) + num_htlcs as int * 172) >= 0) by (nonlinear_arith)
            requires 0 <= feerate_per_kw, 0 <= num_htlcs, 0 < base_weight(channel_type_features);
    }
	feerate_per_kw as u64 *
		(commitment_tx_base_weight(channel_type_features) +
			num_htlcs as u64 * COMMITMENT_TX_WEIGHT_PER_HTLC)
		/ 1000
}
pub fn second_stage_tx_fees_sat(
	channel_type: &ChannelTypeFeatures, feerate_sat_per_1000_weight: u32,
) -> (r: (u64, u64))
    ensures (r.0 as int, r.1 as int) == second_stage_spec(channel_type, feerate_sat_per_1000_weight as int),
            r.0 <= 0xffff_ffff, r.1 <= 0xffff_ffff,
{
	if channel_type.supports_anchors_zero_fee_htlc_tx()
		|| channel_type.supports_anchor_zero_fee_commitments()
	{
		(0, 0)
	} else {
        proof {
            assert(feerate_sat_per_1000_weight as int * 703 / 1000 <= 0xffff_ffff) by (nonlinear_arith) requires 0 <= feerate_sat_per_1000_weight <= 0xffff_ffff;
            assert(feerate_sat_per_1000_weight as int * 663 / 1000 <= 0xffff_ffff) by (nonlinear_arith) requires 0 <= feerate_sat_per_1000_weight <= 0xffff_ffff;
        }
		(
			feerate_sat_per_1000_weight as u64 * htlc_success_tx_weight(channel_type) / 1000,
			feerate_sat_per_1000_weight as u64 * htlc_timeout_tx_weight(channel_type) / 1000,
		)
	}
}

// ---------------- tx_builder (verbatim modulo R6) ----------------
impl HTLCAmountDirection {
	fn is_dust(
		&self, local: bool, feerate_per_kw: u32, broadcaster_dust_limit_satoshis: u64,
		channel_type: &ChannelTypeFeatures,
	) -> (r: bool)
        requires broadcaster_dust_limit_satoshis <= 21_000_000_0000_0000,
        ensures r == is_dust_spec(*self, local, feerate_per_kw as int, broadcaster_dust_limit_satoshis as int, channel_type)
    {
		let (success_tx_fee_sat, timeout_tx_fee_sat) =
			second_stage_tx_fees_sat(channel_type, feerate_per_kw);
		let htlc_tx_fee_sat =
			if self.outbound == local { timeout_tx_fee_sat } else { success_tx_fee_sat };
		self.amount_msat / 1000 < broadcaster_dust_limit_satoshis + htlc_tx_fee_sat
	}
}

fn total_anchors_sat(channel_type: &ChannelTypeFeatures) -> (r: u64)
    ensures r == anchors_spec(channel_type)
{
	if channel_type.supports_anchors_zero_fee_htlc_tx() {
		ANCHOR_OUTPUT_VALUE_SATOSHI * 2
	} else {
		0
	}
}

fn checked_sub_from_funder(
	is_outbound_from_holder: bool, value_to_holder: u64, value_to_counterparty: u64,
	value_to_subtract: u64,
) -> (r: Result<(u64, u64), ()>)
    ensures
        r is Ok <==> (if is_outbound_from_holder { value_to_holder >= value_to_subtract } else { value_to_counterparty >= value_to_subtract }),
        r is Ok ==> (if is_outbound_from_holder {
                r->Ok_0.0 == value_to_holder - value_to_subtract && r->Ok_0.1 == value_to_counterparty
            } else {
                r->Ok_0.0 == value_to_holder && r->Ok_0.1 == value_to_counterparty - value_to_subtract }),
{
	if is_outbound_from_holder {
		Ok((value_to_holder.checked_sub(value_to_subtract).ok_or(())?, value_to_counterparty))
	} else {
		Ok((value_to_holder, value_to_counterparty.checked_sub(value_to_subtract).ok_or(())?))
	}
}

fn saturating_sub_from_funder(
	is_outbound_from_holder: bool, value_to_holder: u64, value_to_counterparty: u64,
	value_to_subtract: u64,
) -> (r: (u64, u64))
    ensures r == (if is_outbound_from_holder {
        ((if value_to_holder >= value_to_subtract { (value_to_holder - value_to_subtract) as u64 } else { 0u64 }), value_to_counterparty)
      } else {
        (value_to_holder, (if value_to_counterparty >= value_to_subtract { (value_to_counterparty - value_to_subtract) as u64 } else { 0u64 })) })
{
	if is_outbound_from_holder {
		(value_to_holder.saturating_sub(value_to_subtract), value_to_counterparty)
	} else {
		(value_to_holder, value_to_counterparty.saturating_sub(value_to_subtract))
	}
}

pub open spec fn has_output_spec(ob: bool, h: int, c: int, feerate: int, n: int, dust: int, ct: &ChannelTypeFeatures) -> bool {
    let fee = commit_fee_spec(feerate, n, ct) * 1000;
    let h2 = if ob { if h >= fee { h - fee } else { 0 } } else { h };
    let c2 = if ob { c } else { if c >= fee { c - fee } else { 0 } };
    !(h2 < dust * 1000 && c2 < dust * 1000 && n == 0 && !ct.zfc)
}

fn has_output(
	is_outbound_from_holder: bool, holder_balance_before_fee_msat: u64,
	counterparty_balance_before_fee_msat: u64, feerate_per_kw: u32, nondust_htlc_count: usize,
	broadcaster_dust_limit_satoshis: u64, channel_type: &ChannelTypeFeatures,
) -> (r: bool)
    requires nondust_htlc_count <= 100_000, broadcaster_dust_limit_satoshis <= 21_000_000_0000_0000,
    ensures r == has_output_spec(is_outbound_from_holder, holder_balance_before_fee_msat as int, counterparty_balance_before_fee_msat as int,
        feerate_per_kw as int, nondust_htlc_count as int, broadcaster_dust_limit_satoshis as int, channel_type)
{
	let commit_tx_fee_sat = commit_tx_fee_sat(feerate_per_kw, nondust_htlc_count, channel_type);
	let (holder_balance_msat, counterparty_balance_msat) = saturating_sub_from_funder(
		is_outbound_from_holder,
		holder_balance_before_fee_msat,
		counterparty_balance_before_fee_msat,
		commit_tx_fee_sat.saturating_mul(1000),
	);

	// Make sure the commitment transaction has at least one output
	let dust_limit_msat = broadcaster_dust_limit_satoshis * 1000;
	let has_no_output = holder_balance_msat < dust_limit_msat
		&& counterparty_balance_msat < dust_limit_msat
		&& nondust_htlc_count == 0
		// 0FC channels always have a P2A output on the commitment transaction
		&& !channel_type.supports_anchor_zero_fee_commitments();
	!has_no_output
}


pub open spec fn min_nondust_sat(local: bool, feerate: int, dust: int, ct: &ChannelTypeFeatures) -> int {
    let (s, t) = second_stage_spec(ct, feerate);
    dust + (if local { t } else { s })
}
pub proof fn lemma_has_output_mono(ob: bool, h1: int, h2: int, c: int, feerate: int, n: int, dust: int, ct: &ChannelTypeFeatures)
    requires h1 <= h2, has_output_spec(ob, h1, c, feerate, n, dust, ct)
    ensures has_output_spec(ob, h2, c, feerate, n, dust, ct)
{}
fn adjust_boundaries_if_max_dust_htlc_produces_no_output(
	local: bool, is_outbound_from_holder: bool, holder_balance_before_fee_msat: u64,
	counterparty_balance_before_fee_msat: u64, feerate_per_kw: u32, nondust_htlc_count: usize,
	dust_limit_satoshis: u64, channel_type: &ChannelTypeFeatures,
	next_outbound_htlc_minimum_msat: u64, available_capacity_msat: u64,
) -> (r: (u64, u64))
    requires nondust_htlc_count <= 2000, 1 <= dust_limit_satoshis <= 21_000_000_0000_0000,
        holder_balance_before_fee_msat <= 21_000_000_0000_0000_000, counterparty_balance_before_fee_msat <= 21_000_000_0000_0000_000,
    ensures
        // never widens the window
        r.0 >= next_outbound_htlc_minimum_msat, r.1 <= available_capacity_msat,
        // (P) every DUST amount inside the adjusted window still leaves this commitment with an output
        forall|a: int| 1 <= a && r.0 <= a <= r.1 && a <= holder_balance_before_fee_msat && a / 1000 < min_nondust_sat(local, feerate_per_kw as int, dust_limit_satoshis as int, channel_type)
            ==> #[trigger] has_output_spec(is_outbound_from_holder, holder_balance_before_fee_msat - a, counterparty_balance_before_fee_msat as int,
                    feerate_per_kw as int, nondust_htlc_count as int, dust_limit_satoshis as int, channel_type),
{
	// First, determine the biggest dust HTLC we could send
	let (htlc_success_tx_fee_sat, htlc_timeout_tx_fee_sat) =
		second_stage_tx_fees_sat(channel_type, feerate_per_kw);
	let min_nondust_htlc_sat =
		dust_limit_satoshis + if local { htlc_timeout_tx_fee_sat } else { htlc_success_tx_fee_sat };
	let max_dust_htlc_msat = (min_nondust_htlc_sat.saturating_mul(1000)).saturating_sub(1);

	if !has_output(
		is_outbound_from_holder,
		holder_balance_before_fee_msat.saturating_sub(max_dust_htlc_msat),
		counterparty_balance_before_fee_msat,
		feerate_per_kw,
		nondust_htlc_count,
		dust_limit_satoshis,
		channel_type,
	) {
		if available_capacity_msat >= min_nondust_htlc_sat.saturating_mul(1000) {
			(
				core::cmp::max(
					min_nondust_htlc_sat.saturating_mul(1000),
					next_outbound_htlc_minimum_msat,
				),
				available_capacity_msat,
			)
		} else {
			let current_tx_fee_sat = commit_tx_fee_sat(feerate_per_kw, 0, channel_type);
			let spike_buffer_tx_fee_sat = commit_tx_fee_sat(feerate_per_kw, 1, channel_type);
			let min_balance_msat = if is_outbound_from_holder {
				core::cmp::max(dust_limit_satoshis + current_tx_fee_sat, spike_buffer_tx_fee_sat) * 1000
			} else {
				dust_limit_satoshis * 1000
			};
			(
				next_outbound_htlc_minimum_msat,
				core::cmp::min(
					holder_balance_before_fee_msat.saturating_sub(min_balance_msat),
					available_capacity_msat,
				),
			)
		}
	} else {
        proof {
            let hb = holder_balance_before_fee_msat as int;
            let md = max_dust_htlc_msat as int;
            assert forall|a: int| 1 <= a && a / 1000 < min_nondust_sat(local, feerate_per_kw as int, dust_limit_satoshis as int, channel_type) && a <= hb implies
                #[trigger] has_output_spec(is_outbound_from_holder, hb - a, counterparty_balance_before_fee_msat as int, feerate_per_kw as int, nondust_htlc_count as int, dust_limit_satoshis as int, channel_type) by {
                assert(a <= md);
                let hsub = if hb >= md { hb - md } else { 0 };
                lemma_has_output_mono(is_outbound_from_holder, hsub, hb - a, counterparty_balance_before_fee_msat as int, feerate_per_kw as int, nondust_htlc_count as int, dust_limit_satoshis as int, channel_type);
            }
        }
		(next_outbound_htlc_minimum_msat, available_capacity_msat)
	}
}
}
fn main() {}
