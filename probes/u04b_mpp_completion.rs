// PROBE U04b: ChannelManager::check_incoming_mpp_part (body verbatim modulo R3, R5 (self/H stubs), R6 (2 chains))
use vstd::prelude::*;
verus! {
pub const MAX_VALUE_MSAT: u64 = 21_000_000_0000_0000_000;
#[derive(Clone, Copy)] pub struct PaymentHash(pub [u8; 32]);
pub struct MppPart { pub cltv_expiry: u32, pub value: u64, pub sender_intended_value: u64, pub timer_ticks: u8, pub total_value_received: Option<u64> }
pub struct ClaimableHTLC { pub mpp_part: MppPart }           // R5: H := the type used at the call site
impl ClaimableHTLC {
	fn mpp_part(&self) -> (r: &MppPart) ensures *r == self.mpp_part { &self.mpp_part }
}
pub struct RecipientOnionFields { pub total_mpp_amount_msat: u64 }
impl RecipientOnionFields {
    #[verifier::external_body]
	pub fn check_merge(&mut self, further_htlc_fields: &mut Self) -> (r: Result<(), ()>)
        ensures final(self).total_mpp_amount_msat == old(self).total_mpp_amount_msat,
            r is Ok ==> old(self).total_mpp_amount_msat == old(further_htlc_fields).total_mpp_amount_msat
    { unimplemented!() }
}
pub struct ChannelManager {}

pub open spec fn intended_sum(s: Seq<ClaimableHTLC>) -> int decreases s.len() {
    if s.len() == 0 { 0 } else { intended_sum(s.drop_last()) + s.last().mpp_part.sender_intended_value as int }
}
pub open spec fn value_sum(s: Seq<ClaimableHTLC>) -> int decreases s.len() {
    if s.len() == 0 { 0 } else { value_sum(s.drop_last()) + s.last().mpp_part.value as int }
}
pub proof fn lemma_isum_step(s: Seq<ClaimableHTLC>, i: int)
    requires 0 <= i < s.len()
    ensures intended_sum(s.take(i + 1)) == intended_sum(s.take(i)) + s[i].mpp_part.sender_intended_value,
            value_sum(s.take(i + 1)) == value_sum(s.take(i)) + s[i].mpp_part.value,
{ assert(s.take(i + 1).drop_last() =~= s.take(i)); }
pub proof fn lemma_isum_mono(s: Seq<ClaimableHTLC>, i: int)
    requires 0 <= i <= s.len()
    ensures 0 <= intended_sum(s.take(i)) <= intended_sum(s), 0 <= value_sum(s.take(i)) <= value_sum(s)
    decreases s.len() - i
{
    if i < s.len() { lemma_isum_mono(s, i + 1); lemma_isum_step(s, i); lemma_nonneg(s.take(i)); } else { assert(s.take(i) =~= s); lemma_nonneg(s); }
}
pub proof fn lemma_nonneg(s: Seq<ClaimableHTLC>) ensures intended_sum(s) >= 0, value_sum(s) >= 0 decreases s.len()
{ if s.len() > 0 { lemma_nonneg(s.drop_last()); } }

impl ChannelManager {
	fn check_incoming_mpp_part(
		&self, htlc_set: &mut Vec<ClaimableHTLC>, payment_onion_fields: &mut RecipientOnionFields, new_htlc: ClaimableHTLC,
		mut onion_fields: RecipientOnionFields, payment_hash: PaymentHash,
	) -> (r: Result<bool, ()>)
        requires
            // representation invariant of an accumulating payment: what is already held is below the maximum and every part is individually valid
            intended_sum(old(htlc_set)@) < MAX_VALUE_MSAT, new_htlc.mpp_part.sender_intended_value < MAX_VALUE_MSAT,
            value_sum(old(htlc_set)@) + new_htlc.mpp_part.value <= u64::MAX,
        ensures ({
            let before = intended_sum(old(htlc_set)@);
            let after = before + new_htlc.mpp_part.sender_intended_value;
            let total = old(payment_onion_fields).total_mpp_amount_msat as int;
            // (P) complete exactly when the parts reach the committed total and it was not complete before
            &&& r == Ok::<bool, ()>(true) ==> before < total && after >= total && after < MAX_VALUE_MSAT
            &&& r == Ok::<bool, ()>(false) ==> after < total && final(htlc_set)@ == old(htlc_set)@.push(new_htlc)
            // (P) no superfluous part once complete, nothing above the representable maximum
            &&& before >= total || after >= MAX_VALUE_MSAT ==> r is Err
            &&& r is Err ==> final(htlc_set)@ == old(htlc_set)@
        }),
    {
		let onions_compatible = payment_onion_fields.check_merge(&mut onion_fields);
		if onions_compatible.is_err() {
			return Err(());
		}
		let mut total_intended_recvd_value = new_htlc.mpp_part().sender_intended_value;
        proof { assert(htlc_set@.take(htlc_set@.len() as int) =~= htlc_set@); }   // @before_loop#0
		for htlc in it: htlc_set.iter()
            invariant_except_break
                total_intended_recvd_value == new_htlc.mpp_part.sender_intended_value + intended_sum(htlc_set@.take(it.index@)),
                total_intended_recvd_value < MAX_VALUE_MSAT,
            invariant htlc_set@ == old(htlc_set)@, it.seq().len() == htlc_set@.len(), forall|k: int| 0 <= k < htlc_set@.len() ==> *it.seq()[k] == htlc_set@[k],
                intended_sum(htlc_set@) < MAX_VALUE_MSAT, new_htlc.mpp_part.sender_intended_value < MAX_VALUE_MSAT,
                htlc_set@.take(htlc_set@.len() as int) == htlc_set@,
                total_intended_recvd_value >= new_htlc.mpp_part.sender_intended_value,
            ensures
                htlc_set@ == old(htlc_set)@,
                total_intended_recvd_value >= new_htlc.mpp_part.sender_intended_value,
                total_intended_recvd_value >= MAX_VALUE_MSAT ==> new_htlc.mpp_part.sender_intended_value + intended_sum(htlc_set@) >= MAX_VALUE_MSAT,
                total_intended_recvd_value < MAX_VALUE_MSAT ==> total_intended_recvd_value == new_htlc.mpp_part.sender_intended_value + intended_sum(htlc_set@),
        {
            proof { lemma_isum_step(htlc_set@, it.index@); lemma_isum_mono(htlc_set@, it.index@ + 1); }
			total_intended_recvd_value += htlc.mpp_part().sender_intended_value;
			if total_intended_recvd_value >= MAX_VALUE_MSAT {
				break;
			}
		}
        proof { assert(htlc_set@.take(htlc_set@.len() as int) =~= htlc_set@); }
		let total_mpp_value = payment_onion_fields.total_mpp_amount_msat;
		if total_intended_recvd_value >= MAX_VALUE_MSAT {
			return Err(());
		} else if total_intended_recvd_value - new_htlc.mpp_part().sender_intended_value
			>= total_mpp_value
		{
			return Err(());
		} else if total_intended_recvd_value >= total_mpp_value {
			htlc_set.push(new_htlc);
			Ok(true)
		} else {
			htlc_set.push(new_htlc);
			Ok(false)
		}
	}
}
}
fn main() {}
