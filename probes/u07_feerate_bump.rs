// PROBE U07: package::compute_fee_from_spent_amounts / feerate_bump (bodies verbatim, R3 log removal, R5 stubs)
use vstd::prelude::*;
verus! {
use vstd::std_specs::cmp::*;
pub assume_specification<T: core::cmp::Ord>[core::cmp::max::<T>](a: T, b: T) -> (r: T)
    ensures T::obeys_cmp_spec() ==> r == (if b.cmp_spec(&a) == core::cmp::Ordering::Less { a } else { b });
pub assume_specification<T: core::cmp::Ord>[core::cmp::min::<T>](a: T, b: T) -> (r: T)
    ensures T::obeys_cmp_spec() ==> r == (if b.cmp_spec(&a) == core::cmp::Ordering::Less { b } else { a });

pub assume_specification<T, E>[core::result::Result::<T, E>::unwrap_or](r: Result<T, E>, d: T) -> (o: T)
    ensures o == (match r { Ok(v) => v, Err(_) => d });
pub const INCREMENTAL_RELAY_FEE_SAT_PER_1000_WEIGHT: u64 = 253;
pub const FEERATE_FLOOR_SATS_PER_KW: u32 = 253;
pub enum FeerateStrategy { RetryPrevious, HighestOfPreviousOrNew, ForceBump }
pub enum ConfirmationTarget { UrgentOnChainSweep, OutputSpendingFee }
pub struct Logger {}
pub struct LowerBoundedFeeEstimator { pub x: u8 }
impl LowerBoundedFeeEstimator {
    // trusted: the wrapper's own contract (cmp::max with the floor) - the estimator may return anything
    #[verifier::external_body]
	pub fn bounded_sat_per_1000_weight(&self, confirmation_target: ConfirmationTarget) -> (r: u32)
        ensures r >= FEERATE_FLOOR_SATS_PER_KW
    { unimplemented!() }
}

pub fn compute_feerate_sat_per_1000_weight(fee_sat: u64, weight: u64) -> (r: u32)
    requires weight > 0, fee_sat <= 21_000_000_0000_0000,
    ensures r as int == (if fee_sat as int * 1000 / weight as int > u32::MAX { u32::MAX as int } else { fee_sat as int * 1000 / weight as int })
{
	(fee_sat * 1000 / weight).try_into().unwrap_or(u32::MAX)
}

pub open spec fn valid_w(w: u64) -> bool { 100 <= w <= 4_000_000 }

fn compute_fee_from_spent_amounts(
	input_amounts: u64, predicted_weight: u64, conf_target: ConfirmationTarget, fee_estimator: &LowerBoundedFeeEstimator, logger: &Logger
) -> (r: Option<(u64, u64)>)
    requires valid_w(predicted_weight), input_amounts <= 21_000_000_0000_0000,
    ensures r is Some ==> ({ let (fee, rate) = r->Some_0;
        &&& rate >= FEERATE_FLOOR_SATS_PER_KW && rate <= u32::MAX
        &&& fee == rate * predicted_weight / 1000
        &&& fee <= input_amounts / 2 + 1 })
{
	let sweep_feerate = fee_estimator.bounded_sat_per_1000_weight(conf_target);
	let fee_rate = core::cmp::min(sweep_feerate, compute_feerate_sat_per_1000_weight(input_amounts / 2, predicted_weight));
    proof {
        assert(fee_rate as int * predicted_weight as int <= 0xffff_ffff * 4_000_000) by (nonlinear_arith) requires 0 <= fee_rate <= 0xffff_ffff, 0 <= predicted_weight <= 4_000_000;
        let h = input_amounts as int / 2; let w = predicted_weight as int;
        assert(fee_rate as int <= h * 1000 / w);
        assert((h * 1000 / w) * w <= h * 1000) by (nonlinear_arith) requires w > 0, h >= 0;
        assert(fee_rate as int * w <= h * 1000) by (nonlinear_arith) requires fee_rate as int <= h * 1000 / w, (h * 1000 / w) * w <= h * 1000, w > 0, fee_rate >= 0;
    }
	let fee = fee_rate as u64 * (predicted_weight) / 1000;

	// if the fee rate is below the floor, we don't sweep
	if fee_rate < FEERATE_FLOOR_SATS_PER_KW {
		None
	} else {
		Some((fee, fee_rate as u64))
	}
}

fn feerate_bump(
	predicted_weight: u64, input_amounts: u64, dust_limit_sats: u64, previous_feerate: u64,
	feerate_strategy: &FeerateStrategy, conf_target: ConfirmationTarget,
	fee_estimator: &LowerBoundedFeeEstimator, logger: &Logger,
) -> (r: Option<(u64, u64)>)
    requires valid_w(predicted_weight), input_amounts <= 21_000_000_0000_0000, 1 <= previous_feerate <= u32::MAX, dust_limit_sats >= 1,
    ensures r is Some ==> ({ let (fee, rate) = r->Some_0;
        let previous_fee = previous_feerate * predicted_weight / 1000;
        // (P) fees are raised monotonically
        &&& rate >= previous_feerate
        &&& fee >= previous_fee
        // (P) a real bump respects BIP125 rules 3 and 4 and never spends the output into dust
        &&& rate > previous_feerate ==> fee >= previous_fee + INCREMENTAL_RELAY_FEE_SAT_PER_1000_WEIGHT * predicted_weight / 1000
        &&& rate > previous_feerate ==> input_amounts - fee >= dust_limit_sats && fee <= input_amounts })
{
    proof { assert(previous_feerate as int * predicted_weight as int <= 0xffff_ffff * 4_000_000) by (nonlinear_arith) requires 0 <= previous_feerate <= 0xffff_ffff, 0 <= predicted_weight <= 4_000_000; }
	let previous_fee = previous_feerate * predicted_weight / 1000;

	// If old feerate inferior to actual one given back by Fee Estimator, use it to compute new fee...
	let (new_fee, new_feerate) = if let Some((new_fee, new_feerate)) =
		compute_fee_from_spent_amounts(input_amounts, predicted_weight, conf_target, fee_estimator, logger)
	{
		match feerate_strategy {
			FeerateStrategy::RetryPrevious => {
				let previous_fee = previous_feerate * predicted_weight / 1000;
				(previous_fee, previous_feerate)
			},
			FeerateStrategy::HighestOfPreviousOrNew => if new_feerate > previous_feerate {
				(new_fee, new_feerate)
			} else {
				let previous_fee = previous_feerate * predicted_weight / 1000;
				(previous_fee, previous_feerate)
			},
			FeerateStrategy::ForceBump => if new_feerate > previous_feerate {
				(new_fee, new_feerate)
			} else {
				// ...else just increase the previous feerate by 25% (because that's a nice number)
				let bumped_feerate = previous_feerate + (previous_feerate / 4);
                proof { assert(bumped_feerate as int * predicted_weight as int <= 2 * 0xffff_ffff * 4_000_000) by (nonlinear_arith) requires 0 <= bumped_feerate <= 2 * 0xffff_ffff, 0 <= predicted_weight <= 4_000_000; }
				let bumped_fee = bumped_feerate * predicted_weight / 1000;

				(bumped_fee, bumped_feerate)
			},
		}
	} else {
		return None;
	};

	// Our feerates should never decrease. If it hasn't changed though, we just need to
	// rebroadcast/re-sign the previous claim.
	debug_assert!(new_feerate >= previous_feerate);
	if new_feerate == previous_feerate {
		return Some((new_fee, new_feerate));
	}

	let min_relay_fee = INCREMENTAL_RELAY_FEE_SAT_PER_1000_WEIGHT * predicted_weight / 1000;
	let naive_new_fee = new_fee;
	let new_fee = core::cmp::max(new_fee, previous_fee + min_relay_fee);

	let remaining_output_amount = input_amounts.saturating_sub(new_fee);
	if remaining_output_amount < dust_limit_sats {
		return None;
	}

    proof { lemma_rate_back(new_fee as int, previous_feerate as int, predicted_weight as int); }
	let new_feerate = new_fee * 1000 / predicted_weight;
	Some((new_fee, new_feerate))
}

// new_fee >= floor(pf*w/1000) + floor(253*w/1000) and w >= 100  ==>  floor(new_fee*1000/w) >= pf
pub proof fn lemma_rate_back(new_fee: int, pf: int, w: int)
    requires 100 <= w <= 4_000_000, 1 <= pf <= 0xffff_ffff, new_fee >= pf * w / 1000 + 253 * w / 1000, new_fee <= 18_446_744_073_709_551
    ensures new_fee * 1000 / w >= pf, new_fee * 1000 <= 0xffff_ffff_ffff_ffff
{
    assert(pf * w >= 0) by (nonlinear_arith) requires pf >= 0, w >= 0;
    let x = pf * w;
    assert(x / 1000 * 1000 >= x - 999);
    assert(253 * w / 1000 * 1000 >= 253 * w - 999);
    assert(253 * w - 999 - 999 >= 0);
    assert(new_fee * 1000 >= pf * w) by (nonlinear_arith)
        requires new_fee >= x / 1000 + 253 * w / 1000, x == pf * w, x / 1000 * 1000 >= x - 999, 253 * w / 1000 * 1000 >= 253 * w - 999, 253 * w - 1998 >= 0;
    assert(new_fee * 1000 / w >= pf) by (nonlinear_arith) requires new_fee * 1000 >= pf * w, w > 0;
}
}
fn main() {}
