// PROBE U01i: FundedChannel::build_closing_transaction (body verbatim modulo R5 field skeleton, R8 format!->stub error)
use vstd::prelude::*;
verus! {
pub struct ScriptBuf {}
pub struct OutPoint {}
pub struct ChannelError {}
impl ChannelError { #[verifier::external_body] pub fn close_msg() -> ChannelError { unimplemented!() } }
pub struct Funding { pub value_to_self_msat: u64, pub value_satoshis: u64, pub outbound: bool }
impl Funding {
    pub fn is_outbound(&self) -> (r: bool) ensures r == self.outbound { self.outbound }
    pub fn get_value_satoshis(&self) -> (r: u64) ensures r == self.value_satoshis { self.value_satoshis }
}
pub struct Context { pub n_inbound: usize, pub n_outbound: usize, pub fee_pending: bool, pub holder_dust_limit_satoshis: u64, pub has_shutdown_script: bool }
pub struct FundedChannel { pub funding: Funding, pub context: Context }
pub struct ClosingTransaction { pub to_holder_value_sat: u64, pub to_counterparty_value_sat: u64 }
impl ClosingTransaction {
    #[verifier::external_body]
    pub fn new(to_holder_value_sat: u64, to_counterparty_value_sat: u64, a: ScriptBuf, b: ScriptBuf, o: OutPoint) -> (r: Self)
        ensures r.to_holder_value_sat == to_holder_value_sat, r.to_counterparty_value_sat == to_counterparty_value_sat { unimplemented!() }
}
impl FundedChannel {
    #[verifier::external_body] fn get_closing_scriptpubkey(&self) -> ScriptBuf { unimplemented!() }
    #[verifier::external_body] fn counterparty_script(&self) -> ScriptBuf { unimplemented!() }
    #[verifier::external_body] fn funding_outpoint_btc(&self) -> OutPoint { unimplemented!() }

	fn build_closing_transaction(
		&self, proposed_total_fee_satoshis: u64, skip_remote_output: bool,
	) -> (r: Result<(ClosingTransaction, u64), ChannelError>)
        requires self.context.n_inbound == 0, self.context.n_outbound == 0, !self.context.fee_pending, self.context.has_shutdown_script,
            self.funding.value_satoshis <= 21_000_000_0000_0000, self.funding.value_to_self_msat <= self.funding.value_satoshis * 1000,
            proposed_total_fee_satoshis <= 21_000_000_0000_0000,
            // the funder can pay the proposed fee (otherwise LDK's own debug_assert fires)
            (if self.funding.outbound { self.funding.value_to_self_msat / 1000 } else { (self.funding.value_satoshis * 1000 - self.funding.value_to_self_msat) as u64 / 1000 }) >= proposed_total_fee_satoshis,
        ensures r is Ok, ({
            let (tx, fee) = r->Ok_0;
            let mine = self.funding.value_to_self_msat as int / 1000;
            let theirs = (self.funding.value_satoshis * 1000 - self.funding.value_to_self_msat) / 1000;
            let dust = self.context.holder_dust_limit_satoshis as int;
            // (P) a cooperative close pays each party its final balance less only the negotiated fee
            &&& fee == proposed_total_fee_satoshis
            &&& tx.to_holder_value_sat as int == ({ let v = mine - (if self.funding.outbound { fee as int } else { 0 }); if v <= dust { 0 } else { v } })
            &&& tx.to_counterparty_value_sat as int == ({ let v = theirs - (if self.funding.outbound { 0 } else { fee as int }); if skip_remote_output || v <= dust { 0 } else { v } })
            &&& tx.to_holder_value_sat + tx.to_counterparty_value_sat + fee <= self.funding.value_satoshis
        }),
    {
		assert!(self.context.n_inbound == 0);
		assert!(self.context.n_outbound == 0);
		assert!(!self.context.fee_pending);

		let mut total_fee_satoshis = proposed_total_fee_satoshis;
		let mut value_to_holder: i64 = (self.funding.value_to_self_msat as i64) / 1000
			- if self.funding.is_outbound() { total_fee_satoshis as i64 } else { 0 };
		let mut value_to_counterparty: i64 =
			((self.funding.get_value_satoshis() * 1000 - self.funding.value_to_self_msat) as i64
				/ 1000) - if self.funding.is_outbound() { 0 } else { total_fee_satoshis as i64 };

		if value_to_holder < 0 {
			assert!(self.funding.is_outbound());
			total_fee_satoshis += (-value_to_holder) as u64;
		} else if value_to_counterparty < 0 {
			assert!(!self.funding.is_outbound());
			total_fee_satoshis += (-value_to_counterparty) as u64;
		}

		debug_assert!(value_to_counterparty >= 0);
		if value_to_counterparty < 0 {
			return Err(ChannelError::close_msg());
		}
		if skip_remote_output
			|| value_to_counterparty as u64 <= self.context.holder_dust_limit_satoshis
		{
			value_to_counterparty = 0;
		}

		debug_assert!(value_to_holder >= 0);
		if value_to_holder < 0 {
			return Err(ChannelError::close_msg());
		}
		if value_to_holder as u64 <= self.context.holder_dust_limit_satoshis {
			value_to_holder = 0;
		}

		assert!(self.context.has_shutdown_script);
		let holder_shutdown_script = self.get_closing_scriptpubkey();
		let counterparty_shutdown_script = self.counterparty_script();
		let funding_outpoint = self.funding_outpoint_btc();

		let closing_transaction = ClosingTransaction::new(
			value_to_holder as u64,
			value_to_counterparty as u64,
			holder_shutdown_script,
			counterparty_shutdown_script,
			funding_outpoint,
		);
		Ok((closing_transaction, total_fee_satoshis))
	}
}
}
fn main() {}
