use vstd::prelude::*;
verus! {
fn f(v: &mut Vec<u64>) 
  requires old(v).len() >= 1
  ensures forall|k: int| 0 <= k < final(v).len() ==> final(v)[k] == 7, final(v).len() == old(v).len()
{
    let n = v.len();
    for i in iter: (0..n).rev()
        invariant v.len() == n, 
           iter.seq().len() == n,
           forall|j: int| 0 <= j < n ==> iter.seq()[j] == n - 1 - j,
           forall|k: int| n - iter.index@ <= k < n ==> v[k] == 7,
    {
        v[i] = 7;
    }
}
}
fn main() {}
