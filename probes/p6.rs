use vstd::prelude::*;
use std::collections::HashSet;
verus! {
pub struct PaymentHash(pub [u8; 32]);
impl Clone for PaymentHash { fn clone(&self) -> Self { PaymentHash(self.0) } }
impl Copy for PaymentHash {}
pub enum Reason { A, B }
pub enum P {
    Legacy { session_privs: HashSet<[u8; 32]> },
    AwaitingInvoice { x: u64 },
    Retryable { session_privs: HashSet<[u8; 32]>, payment_hash: PaymentHash, pending_amt_msat: u64, pending_fee_msat: Option<u64>, total_msat: u64 },
    Fulfilled { session_privs: HashSet<[u8; 32]>, payment_hash: Option<PaymentHash>, total_msat: Option<u64>, fee_paid_msat: Option<u64> },
    Abandoned { session_privs: HashSet<[u8; 32]>, payment_hash: PaymentHash, reason: Option<Reason>, total_msat: Option<u64>, pending_fee_msat: Option<u64> },
}
#[verifier::external_body]
fn new_hash_set() -> (r: HashSet<[u8; 32]>) ensures r@ == Set::<[u8;32]>::empty() { HashSet::new() }

impl P {
	fn total_msat(&self) -> Option<u64> {
		match self {
			P::Retryable { total_msat, .. } => Some(*total_msat),
			P::Fulfilled { total_msat, .. } => *total_msat,
			P::Abandoned { total_msat, .. } => *total_msat,
			_ => None,
		}
	}
	fn get_pending_fee_msat(&self) -> Option<u64> {
		match self {
			P::Retryable { pending_fee_msat, .. } => pending_fee_msat.clone(),
			P::Abandoned { pending_fee_msat, .. } => pending_fee_msat.clone(),
			P::Fulfilled { fee_paid_msat, .. } => fee_paid_msat.clone(),
			_ => None,
		}
	}
	fn mark_abandoned(&mut self, reason: Reason)
        ensures (*old(self)) is Fulfilled ==> (*final(self)) is Fulfilled,
	{
		let session_privs = match self {
			P::Retryable { session_privs, .. } => {
				let mut our_session_privs = new_hash_set();
				core::mem::swap(&mut our_session_privs, session_privs);
				our_session_privs
			},
			_ => new_hash_set(),
		};
		let total_msat = self.total_msat();
		let pending_fee_msat = self.get_pending_fee_msat();
		match self {
			Self::Retryable { payment_hash, .. } =>
			{
				*self = Self::Abandoned {
					session_privs,
					payment_hash: *payment_hash,
					reason: Some(reason),
					total_msat,
					pending_fee_msat,
				};
			},
			_ => {}
		}
	}
}
}
fn main() {}
