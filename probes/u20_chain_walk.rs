// PROBE U20: block-sync chain walk (bodies verbatim; async kept; R5: `P: Poll` -> stub poller; bitcoin types opaque)
use vstd::prelude::*;
verus! {
// ---- env ----
#[derive(Clone, Copy)] pub struct BlockHash(pub u64);      // opaque identity; equality is identity (collision-freeness assumed)
#[derive(Clone, Copy)] pub struct Work(pub u64);
#[derive(Clone, Copy)] pub struct Header { pub prev_blockhash: BlockHash, pub bits: u32 }
#[derive(Clone, Copy)] pub struct BlockHeaderData { pub header: Header, pub height: u32, pub chainwork: Work }
#[derive(Clone, Copy)] pub struct ValidatedBlockHeader { pub block_hash: BlockHash, pub inner: BlockHeaderData }
pub struct BlockSourceError {}
pub type BlockSourceResult<T> = Result<T, BlockSourceError>;

// the (unknown) block tree served by the sources: every hash has one parent and one height
pub uninterp spec fn parent_of(h: BlockHash) -> BlockHash;
pub uninterp spec fn height_of(h: BlockHash) -> int;
// a validated header is consistent with the tree (this is what Poll::look_up_previous_header establishes via check_builds_on)
pub open spec fn wf(h: ValidatedBlockHeader) -> bool {
    h.inner.header.prev_blockhash == parent_of(h.block_hash) && h.inner.height as int == height_of(h.block_hash)
    && height_of(parent_of(h.block_hash)) + 1 == height_of(h.block_hash)
}
pub open spec fn nth_parent(h: BlockHash, n: nat) -> BlockHash decreases n { if n == 0 { h } else { nth_parent(parent_of(h), (n - 1) as nat) } }
pub open spec fn is_ancestor(a: BlockHash, b: BlockHash) -> bool { exists|n: nat| nth_parent(b, n) == a }

pub struct HeaderCache {}
impl HeaderCache {
    #[verifier::external_body]
	pub fn look_up(&self, block_hash: &BlockHash) -> (r: Option<&ValidatedBlockHeader>)
        ensures r is Some ==> r->Some_0.block_hash == *block_hash && wf(*r->Some_0)   // cache invariant (assumed)
    { unimplemented!() }
}
pub struct Poller {}
impl Poller {
    #[verifier::external_body]
	async fn look_up_previous_header(&mut self, header: &ValidatedBlockHeader) -> (r: BlockSourceResult<ValidatedBlockHeader>)
        ensures r is Ok ==> r->Ok_0.block_hash == header.inner.header.prev_blockhash && wf(r->Ok_0)
    { unimplemented!() }
}
pub struct ChainNotifier<'a> { pub header_cache: &'a mut HeaderCache }
pub struct ChainDifference { pub common_ancestor: ValidatedBlockHeader, pub connected_blocks: Vec<ValidatedBlockHeader> }

pub proof fn lemma_nth_step(h: BlockHash, n: nat)
    ensures nth_parent(h, n + 1) == parent_of(nth_parent(h, n))
    decreases n
{
    reveal_with_fuel(nth_parent, 3);
    if n > 0 { lemma_nth_step(parent_of(h), (n - 1) as nat); assert(nth_parent(h, n + 1) == nth_parent(parent_of(h), n)); }
}

pub proof fn lemma_anc_step(top: BlockHash, a: BlockHash, b: BlockHash)
    requires is_ancestor(a, top), b == a || b == parent_of(a)
    ensures is_ancestor(b, top)
{
    if b != a {
        let n = choose|n: nat| nth_parent(top, n) == a;
        lemma_nth_step(top, n);
        assert(nth_parent(top, n + 1) == b);
    }
}
// connected_blocks is a parent-linked chain from `top` down to a child of `bottom`
pub open spec fn linked(s: Seq<ValidatedBlockHeader>, top: BlockHash, bottom: BlockHash) -> bool {
    if s.len() == 0 { top == bottom } else {
        &&& s[0].block_hash == top
        &&& forall|k: int| 0 <= k < s.len() ==> wf(#[trigger] s[k])
        &&& forall|k: int| 0 <= k < s.len() - 1 ==> (#[trigger] s[k]).inner.header.prev_blockhash == s[k + 1].block_hash
        &&& s[s.len() - 1].inner.header.prev_blockhash == bottom
    }
}

impl<'a> ChainNotifier<'a> {
	async fn look_up_previous_header(
		&self, chain_poller: &mut Poller, header: &ValidatedBlockHeader,
	) -> (r: BlockSourceResult<ValidatedBlockHeader>)
        ensures r is Ok ==> r->Ok_0.block_hash == header.inner.header.prev_blockhash && wf(r->Ok_0)
    {
		match self.header_cache.look_up(&header.inner.header.prev_blockhash) {
			Some(prev_header) => Ok(*prev_header),
			None => chain_poller.look_up_previous_header(header).await,
		}
	}

    #[verifier::exec_allows_no_decreases_clause]
	async fn find_difference_from_header(
		&self, current_header: ValidatedBlockHeader, prev_header: &ValidatedBlockHeader,
		chain_poller: &mut Poller,
	) -> (r: BlockSourceResult<ChainDifference>)
        requires wf(current_header), wf(*prev_header)
        ensures r is Ok ==> ({ let d = r->Ok_0;
            &&& is_ancestor(d.common_ancestor.block_hash, current_header.block_hash)
            &&& is_ancestor(d.common_ancestor.block_hash, prev_header.block_hash)
            &&& linked(d.connected_blocks@, current_header.block_hash, d.common_ancestor.block_hash) })
    {
		let mut connected_blocks = Vec::new();
		let mut current = current_header;
		let mut previous = *prev_header;
        proof { assert(nth_parent(current_header.block_hash, 0) == current_header.block_hash); assert(nth_parent(prev_header.block_hash, 0) == prev_header.block_hash); }   // @before_loop#0
		loop
            invariant wf(current), wf(previous),
                is_ancestor(current.block_hash, current_header.block_hash),
                is_ancestor(previous.block_hash, prev_header.block_hash),
                linked(connected_blocks@, current_header.block_hash, current.block_hash),
            ensures current.block_hash == previous.block_hash, wf(current),
                is_ancestor(current.block_hash, current_header.block_hash),
                is_ancestor(previous.block_hash, prev_header.block_hash),
                linked(connected_blocks@, current_header.block_hash, current.block_hash),
        {
            let ghost c0 = current; let ghost p0 = previous; let ghost cb0 = connected_blocks@;   // @loop#0_body_start
			// Found the common ancestor.
			if current.block_hash.0 == previous.block_hash.0 {
				break;
			}

			let current_height = current.inner.height;
			let previous_height = previous.inner.height;
			if current_height <= previous_height {
				previous = self.look_up_previous_header(chain_poller, &previous).await?;
			}
			if current_height >= previous_height {
				connected_blocks.push(current);
				current = self.look_up_previous_header(chain_poller, &current).await?;
			}
            proof {   // @loop#0_body_end
                lemma_anc_step(prev_header.block_hash, p0.block_hash, previous.block_hash);
                lemma_anc_step(current_header.block_hash, c0.block_hash, current.block_hash);
                if current.block_hash != c0.block_hash { assert(connected_blocks@ == cb0.push(c0)); }
            }
		}

		let common_ancestor = current;
		Ok(ChainDifference { common_ancestor, connected_blocks })
	}
}
// ---------- check_builds_on (Work/Target opaque with assumed arithmetic) ----------
pub enum Network { Bitcoin, Testnet }
pub struct Target(pub u64);
impl Work { #[verifier::external_body] pub fn add(self, o: Work) -> (r: Work) ensures r.0 == self.0 + o.0 { unimplemented!() } }
impl Header {
    #[verifier::external_body] pub fn work(&self) -> Work { unimplemented!() }
    #[verifier::external_body] pub fn target(&self) -> Target { unimplemented!() }
}
pub uninterp spec fn work_of(h: Header) -> Work;
impl Target {
    #[verifier::external_body] pub fn min_transition_threshold(&self) -> Target { unimplemented!() }
    #[verifier::external_body] pub fn max_transition_threshold_unchecked(&self) -> Target { unimplemented!() }
    #[verifier::external_body] pub fn gt(&self, o: &Target) -> (r: bool) ensures r == (self.0 > o.0) { unimplemented!() }
    #[verifier::external_body] pub fn lt(&self, o: &Target) -> (r: bool) ensures r == (self.0 < o.0) { unimplemented!() }
}
#[verifier::external_body] pub fn persistent(msg: u8) -> BlockSourceError { unimplemented!() }
#[verifier::external_body] pub fn work_eq(a: Work, b: Work) -> (r: bool) ensures r == (a.0 == b.0) { unimplemented!() }

impl ValidatedBlockHeader {
	fn check_builds_on(
		&self, previous_header: &ValidatedBlockHeader, network: Network,
	) -> (r: BlockSourceResult<()>)
        requires previous_header.inner.height < u32::MAX, previous_header.inner.chainwork.0 < 0x7fff_ffff_ffff_ffff,
        ensures
            // (P) headers that do not connect are refused
            r is Ok ==> self.inner.header.prev_blockhash.0 == previous_header.block_hash.0
                && self.inner.height == previous_header.inner.height + 1,
    {
		if self.inner.header.prev_blockhash.0 != previous_header.block_hash.0 {
			return Err(persistent(0));
		}

		if self.inner.height != previous_header.inner.height + 1 {
			return Err(persistent(1));
		}
		Ok(())
	}
}

}
fn main() {}
