// PROBE U07: package::compute_fee_from_spent_amounts / feerate_bump (bodies verbatim, R3 log removal, R5 stubs)
use vstd::prelude::*;
verus! {
use vstd::std_specs::cmp::*;
pub assume_specification<T: core::cmp::Ord>[core::cmp::max::<T>](a: T, b: T) -> (r: T)
    ensures T::obeys_cmp_spec() ==> r == (if b.cmp_spec(&a) == core::cmp::Ordering::Less { a } else { b });
pub assume_specification<T: core::cmp::Ord>[core::cmp::min::<T>](a: T, b: T) -> (r: T)
    ensures T::obeys_cmp_spec() ==> r == (if b.cmp_spec(&a) == core::cmp::Ordering::Less { b } else { a });

pub assume_specification<T, E>[core::result::Result::<T, E>::unwrap_or](r: Result<T, E>, d: T) -> (o: T)
    ensures o == (match r { Ok(v) => v, Err(_) => d });
pub const INCREMENTAL_RELAY_FEE_SAT_PER_1000_WEIGHT: u64 = 253;
pub const FEERATE_FLOOR_SATS_PER_KW: u32 = 253;
pub enum FeerateStrategy { RetryPrevious, HighestOfPreviousOrNew, ForceBump }
pub enum ConfirmationTarget { UrgentOnChainSweep, OutputSpendingFee }
pub struct Logger {}
pub struct LowerBoundedFeeEstimator { pub x: u8 }
impl LowerBoundedFeeEstimator {
    // trusted: the wrapper's own contract (cmp::max with the floor) - the estimator may return anything
    #[verifier::external_body]
	pub fn bounded_sat_per_1000_weight(&self, confirmation_target: ConfirmationTarget) -> (r: u32)
        ensures r >= FEERATE_FLOOR_SATS_PER_KW
    { unimplemented!() }
}

pub fn compute_feerate_sat_per_1000_weight(fee_sat: u64, weight: u64) -> (r: u32)
    requires weight > 0, fee_sat <= 21_000_000_0000_0000,
    ensures r as int == (if fee_sat as int * 1000 / weight as int > u32::MAX { u32::MAX as int } else { fee_sat as int * 1000 / weight as int })
{
	(fee_sat * 1000 / weight).try_into().unwrap_or(u32::MAX)
}

pub open spec fn valid_w(w: u64) -> bool { 100 <= w <= 4_000_000 }

fn compute_fee_from_spent_amounts(
	input_amounts: u64, predicted_weight: u64, conf_target: ConfirmationTarget, fee_estimator: &LowerBoundedFeeEstimator, logger: &Logger
) -> (r: Option<(u64, u64)>)
    requires valid_w(predicted_weight), input_amounts <= 21_000_000_0000_0000,
    ensures r is Some ==> ({ let (fee, rate) = r->Some_0;
        &&& rate >= FEERATE_FLOOR_SATS_PER_KW && rate <= u32::MAX
        &&& fee == rate * predicted_weight / 1000
        &&& fee <= input_amounts / 2 + 1 })
{
	let sweep_feerate = fee_estimator.bounded_sat_per_1000_weight(conf_target);
	let fee_rate = core::cmp::min(sweep_feerate, compute_feerate_sat_per_1000_weight(input_amounts / 2, predicted_weight));
    proof {
        assert(fee_rate as int * predicted_weight as int <= 0xffff_ffff * 4_000_000) by (nonlinear_arith) requires 0 <= fee_rate <= 0xffff_ffff, 0 <= predicted_weight <= 4_000_000;
        let h = input_amounts as int / 2; let w = predicted_weight as int;
        assert(fee_rate as int <= h * 1000 / w);
        assert((h * 1000 / w) * w <= h * 1000) by (nonlinear_arith) requires w > 0, h >= 0;
        assert(fee_rate as int * w <= h * 1000) by (nonlinear_arith) requires fee_rate as int <= h * 1000 / w, (h * 1000 / w) * w <= h * 1000, w > 0, fee_rate >= 0;
    }
	let fee = fee_rate as u64 * (predicted_weight) / 1000;

	// if the fee rate is below the floor, we don't sweep
	if fee_rate < FEERATE_FLOOR_SATS_PER_KW {
		None
	} else {
		Some((fee, fee_rate as u64))
	}
}

fn feerate_bump(
	predicted_weight: u64, input_amounts: u64, dust_limit_sats: u64, previous_feerate: u64,
	feerate_strategy: &FeerateStrategy, conf_target: ConfirmationTarget,
	fee_estimator: &LowerBoundedFeeEstimator, logger: &Logger,
) -> (r: Option<(u64, u64)>)
    requires valid_w(predicted_weight), input_amounts <= 21_000_000_0000_0000, 1 <= previous_feerate <= u32::MAX, dust_limit_sats >= 1,
    ensures r is Some ==> ({ let (fee, rate) = r->Some_0;
        let previous_fee = previous_feerate * predicted_weight / 1000;
        // (P) fees are raised monotonically
        &&& rate >= previous_feerate
        &&& fee >= previous_fee
        // (P) a real bump respects BIP125 rules 3 and 4 and never spends the output into dust
        &&& rate > previous_feerate ==> fee >= previous_fee + INCREMENTAL_RELAY_FEE_SAT_PER_1000_WEIGHT * predicted_weight / 1000
        &&& rate > previous_feerate ==> input_amounts - fee >= dust_limit_sats && fee <= input_amounts })
{
    proof { assert(previous_feerate as int * predicted_weight as int <= 0xffff_ffff * 4_000_000) by (nonlinear_arith) requires 0 <= previous_feerate <= 0xffff_ffff, 0 <= predicted_weight <= 4_000_000; }
	let previous_fee = previous_feerate * predicted_weight / 1000;

	// If old feerate inferior to actual one given back by Fee Estimator, use it to compute new fee...
	let (new_fee, new_feerate) = if let Some((new_fee, new_feerate)) =
		compute_fee_from_spent_amounts(input_amounts, predicted_weight, conf_target, fee_estimator, logger)
	{
		match feerate_strategy {
			FeerateStrategy::RetryPrevious => {
				let previous_fee = previous_feerate * predicted_weight / 1000;
				(previous_fee, previous_feerate)
			},
			FeerateStrategy::HighestOfPreviousOrNew => if new_feerate > previous_feerate {
				(new_fee, new_feerate)
			} else {
				let previous_fee = previous_feerate * predicted_weight / 1000;
				(previous_fee, previous_feerate)
			},
			FeerateStrategy::ForceBump => if new_feerate > previous_feerate {
				(new_fee, new_feerate)
			} else {
				// ...else just increase the previous feerate by 25% (because that's a nice number)
				let bumped_feerate = previous_feerate + (previous_feerate / 4);
                proof { assert(bumped_feerate as int * predicted_weight as int <= 2 * 0xffff_ffff * 4_000_000) by (nonlinear_arith) requires 0 <= bumped_feerate <= 2 * 0xffff_ffff, 0 <= predicted_weight <= 4_000_000; }
				let bumped_fee = bumped_feerate * predicted_weight / 1000;

				(bumped_fee, bumped_feerate)
			},
		}
	} else {
		return None;
	};

	// Our feerates should never decrease. If it hasn't changed though, we just need to
	// rebroadcast/re-sign the previous claim.
	debug_assert!(new_feerate >= previous_feerate);
	if new_feerate == previous_feerate {
		return Some((new_fee, new_feerate));
	}

	let min_relay_fee = INCREMENTAL_RELAY_FEE_SAT_PER_1000_WEIGHT * predicted_weight / 1000;
	let naive_new_fee = new_fee;
	let new_fee = core::cmp::max(new_fee, previous_fee + min_relay_fee);

	let remaining_output_amount = input_amounts.saturating_sub(new_fee);
	if remaining_output_amount < dust_limit_sats {
		return None;
	}

    proof { lemma_rate_back(new_fee as int, previous_feerate as int, predicted_weight as int); }
	let new_feerate = new_fee * 1000 / predicted_weight;
	Some((new_fee, new_feerate))
}

// new_fee >= floor(pf*w/1000) + floor(253*w/1000) and w >= 100  ==>  floor(new_fee*1000/w) >= pf
pub proof fn lemma_rate_back(new_fee: int, pf: int, w: int)
    requires 100 <= w <= 4_000_000, 1 <= pf <= 0xffff_ffff, new_fee >= pf * w / 1000 + 253 * w / 1000, new_fee <= 18_446_744_073_709_551
    ensures new_fee * 1000 / w >= pf, new_fee * 1000 <= 0xffff_ffff_ffff_ffff
{
    assert(pf * w >= 0) by (nonlinear_arith) requires pf >= 0, w >= 0;
    let x = pf * w;
    assert(x / 1000 * 1000 >= x - 999);
    assert(253 * w / 1000 * 1000 >= 253 * w - 999);
    assert(253 * w - 999 - 999 >= 0);
    assert(new_fee * 1000 >= pf * w) by (nonlinear_arith)
        requires new_fee >= x / 1000 + 253 * w / 1000, x == pf * w, x / 1000 * 1000 >= x - 999, 253 * w / 1000 * 1000 >= 253 * w - 999, 253 * w - 1998 >= 0;
    assert(new_fee * 1000 / w >= pf) by (nonlinear_arith) requires new_fee * 1000 >= pf * w, w > 0;
}
// ---------- PackageTemplate methods (self skeleton: inputs (opaque solving data), malleability tag, counterparty_spendable_height, feerate_previous) ----------
pub const LOW_FREQUENCY_BUMP_INTERVAL: u32 = 15;
pub const MIDDLE_FREQUENCY_BUMP_INTERVAL: u32 = 3;
pub const HIGH_FREQUENCY_BUMP_INTERVAL: u32 = 1;
pub const MIN_CLTV_EXPIRY_DELTA: u16 = 6 * 8;
pub struct HTLCOutputInCommitment { pub cltv_expiry: u32 }
pub struct RevokedOutput {}
pub struct RevokedHTLCOutput {}
pub struct CounterpartyOfferedHTLCOutput { pub htlc: HTLCOutputInCommitment }
pub struct CounterpartyReceivedHTLCOutput { pub htlc: HTLCOutputInCommitment }
pub struct HolderHTLCOutput { pub preimage: Option<[u8; 32]>, pub cltv_expiry: u32 }
pub struct HolderFundingOutput {}
pub enum PackageSolvingData {
	RevokedOutput(RevokedOutput), RevokedHTLCOutput(RevokedHTLCOutput), CounterpartyOfferedHTLCOutput(CounterpartyOfferedHTLCOutput),
	CounterpartyReceivedHTLCOutput(CounterpartyReceivedHTLCOutput), HolderHTLCOutput(HolderHTLCOutput), HolderFundingOutput(HolderFundingOutput),
}
pub struct BitcoinOutPoint {}
pub enum PackageMalleability { Malleable { c: u8 }, Untractable }
pub struct PackageTemplate { pub inputs: Vec<(BitcoinOutPoint, PackageSolvingData)>, pub malleability: PackageMalleability, pub counterparty_spendable_height: u32, pub feerate_previous: u64 }

pub open spec fn input_sane(d: PackageSolvingData) -> bool {
    match d {
        PackageSolvingData::CounterpartyOfferedHTLCOutput(o) => o.htlc.cltv_expiry <= 0x7fff_ffff,
        PackageSolvingData::CounterpartyReceivedHTLCOutput(o) => o.htlc.cltv_expiry <= 0x7fff_ffff,
        PackageSolvingData::HolderHTLCOutput(o) => o.cltv_expiry <= 0x7fff_ffff,
        _ => true }
}
impl PackageTemplate {
    #[verifier::external_body]
	pub fn package_amount(&self) -> (r: u64) ensures r <= 21_000_000_0000_0000 { unimplemented!() }   // assumed: total claimable value is below the supply

	pub fn get_height_timer(&self, current_height: u32) -> (r: u32)
        requires current_height <= 0x7fff_ffff, self.counterparty_spendable_height <= 0x7fff_ffff,
            forall|k: int| 0 <= k < self.inputs@.len() ==> input_sane(#[trigger] self.inputs@[k].1),
        ensures
            // (P) the next bump is always in the future and at most LOW_FREQUENCY blocks away
            current_height < r <= current_height + LOW_FREQUENCY_BUMP_INTERVAL,
            r == current_height + 1 || r == current_height + 3 || r == current_height + 15,
    {
		let mut height_timer = current_height + LOW_FREQUENCY_BUMP_INTERVAL;
		let timer_for_target_conf = |target_conf: u32| -> (o: u32)
            requires target_conf <= 0x7fff_ffff + 48
            ensures o == current_height + 1 || o == current_height + 3 || o == current_height + 15,
                target_conf <= current_height + MIDDLE_FREQUENCY_BUMP_INTERVAL ==> o == current_height + HIGH_FREQUENCY_BUMP_INTERVAL
        {
			if target_conf <= current_height + MIDDLE_FREQUENCY_BUMP_INTERVAL {
				current_height + HIGH_FREQUENCY_BUMP_INTERVAL
			} else if target_conf <= current_height + LOW_FREQUENCY_BUMP_INTERVAL {
				current_height + MIDDLE_FREQUENCY_BUMP_INTERVAL
			} else {
				current_height + LOW_FREQUENCY_BUMP_INTERVAL
			}
		};
		for (_, input) in it: self.inputs.iter()
            invariant current_height <= 0x7fff_ffff, self.counterparty_spendable_height <= 0x7fff_ffff,
                height_timer == current_height + 1 || height_timer == current_height + 3 || height_timer == current_height + 15,
                it.seq().len() == self.inputs@.len(), forall|k: int| 0 <= k < self.inputs@.len() ==> *it.seq()[k] == self.inputs@[k],
                forall|k: int| 0 <= k < self.inputs@.len() ==> input_sane(#[trigger] self.inputs@[k].1),
                forall|t: u32| t <= 0x7fff_ffff + 48 ==> timer_for_target_conf.requires((t,)),
                forall|t: u32, o: u32| timer_for_target_conf.ensures((t,), o) ==> (o == current_height + 1 || o == current_height + 3 || o == current_height + 15),
        {
            proof { assert(self.inputs@[it.index@].1 == *input); assert(input_sane(self.inputs@[it.index@].1)); }
			match input {
				PackageSolvingData::RevokedOutput(_) => {
					height_timer = core::cmp::min(
						height_timer,
						timer_for_target_conf(self.counterparty_spendable_height),
					);
				},
				PackageSolvingData::RevokedHTLCOutput(_) => {
				},
				PackageSolvingData::CounterpartyOfferedHTLCOutput(outp) => {
					height_timer = core::cmp::min(
						height_timer,
						timer_for_target_conf(outp.htlc.cltv_expiry),
					);
				},
				PackageSolvingData::HolderHTLCOutput(outp) if outp.preimage.is_some() => {
					height_timer = core::cmp::min(
						height_timer,
						timer_for_target_conf(self.counterparty_spendable_height),
					);
				},
				PackageSolvingData::CounterpartyReceivedHTLCOutput(outp) => {
					height_timer = core::cmp::min(
						height_timer,
						timer_for_target_conf(outp.htlc.cltv_expiry + MIN_CLTV_EXPIRY_DELTA as u32),
					);
				},
				PackageSolvingData::HolderHTLCOutput(outp) => {
					height_timer = core::cmp::min(
						height_timer,
						timer_for_target_conf(outp.cltv_expiry + MIN_CLTV_EXPIRY_DELTA as u32),
					);
				},
				PackageSolvingData::HolderFundingOutput(_) => {
					height_timer =
						core::cmp::min(height_timer, current_height + HIGH_FREQUENCY_BUMP_INTERVAL);
				},
			}
		}
		height_timer
	}

	pub fn compute_package_output(
		&self, predicted_weight: u64, dust_limit_sats: u64, feerate_strategy: &FeerateStrategy,
		conf_target: ConfirmationTarget, fee_estimator: &LowerBoundedFeeEstimator, logger: &Logger,
	) -> (r: Option<(u64, u64)>)
        requires valid_w(predicted_weight), self.malleability is Malleable, 1 <= dust_limit_sats <= 0x7fff_ffff_ffff_ffff,
            self.feerate_previous <= u32::MAX,
        ensures r is Some ==> r->Some_0.0 >= dust_limit_sats,
    {
		debug_assert!(matches!(self.malleability, PackageMalleability::Malleable{..}),
			"The package output is fixed for non-malleable packages");
		let input_amounts = self.package_amount();
		assert!(dust_limit_sats as i64 > 0, "Output script must be broadcastable/have a 'real' dust limit.");
		// If old feerate is 0, first iteration of this claim, use normal fee calculation
		if self.feerate_previous != 0 {
			if let Some((new_fee, feerate)) = feerate_bump(
				predicted_weight, input_amounts, dust_limit_sats, self.feerate_previous,
				feerate_strategy, conf_target, fee_estimator, logger,
			) {
				return Some((core::cmp::max(input_amounts.saturating_sub(new_fee), dust_limit_sats), feerate));
			}
		} else {
			if let Some((new_fee, feerate)) = compute_fee_from_spent_amounts(input_amounts, predicted_weight, conf_target, fee_estimator, logger) {
				return Some((core::cmp::max(input_amounts.saturating_sub(new_fee), dust_limit_sats), feerate));
			}
		}
		None
	}
}

}
fn main() {}
