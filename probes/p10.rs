use vstd::prelude::*;
verus! {
pub struct Fees { pub base_msat: u32, pub proportional_millionths: u32 }
pub struct Cand { pub min: u64, pub f: Fees }
impl Cand {
  #[verifier::external_body] pub fn htlc_minimum_msat(&self) -> (r: u64) ensures r == self.min { self.min }
  #[verifier::external_body] pub fn fees(&self) -> (r: Fees) ensures r == self.f { Fees{base_msat: self.f.base_msat, proportional_millionths: self.f.proportional_millionths} }
}
pub struct Hop { pub candidate: Cand, pub fee_msat: u64, pub next_hops_fee_msat: u64, pub hop_use_fee_msat: u64, pub path_penalty_msat: u64 }
pub struct NF {}
pub struct PaymentPath { pub hops: Vec<(Hop, NF)> }

pub fn compute_fees(amount_msat: u64, channel_fees: Fees) -> Option<u64> {
	amount_msat.checked_mul(channel_fees.proportional_millionths as u64)
		.and_then(|part| (channel_fees.base_msat as u64).checked_add(part / 1_000_000))
}

impl PaymentPath {
	fn update(&mut self, value_msat: u64) -> u64 {
		let mut extra_contribution_msat = 0;
		let mut total_fee_paid_msat = 0 as u64;
		for i in (0..self.hops.len()).rev() {
			let last_hop = i == self.hops.len() - 1;
			let mut cur_hop_fees_msat = 0;
			if !last_hop {
				cur_hop_fees_msat = self.hops.get(i + 1).unwrap().0.hop_use_fee_msat;
			}
			let cur_hop = &mut self.hops.get_mut(i).unwrap().0;
			cur_hop.next_hops_fee_msat = total_fee_paid_msat;
			cur_hop.path_penalty_msat += extra_contribution_msat;
        }
		value_msat + extra_contribution_msat
    }
}
}
fn main() {}
