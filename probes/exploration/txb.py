# Faithful Python port of lightning/src/sign/tx_builder.rs arithmetic (u64 semantics), for contract exploration only.
import random
U64=2**64-1; U32=2**32-1
def ssub(a,b): return a-b if a>=b else 0
def sadd(a,b): return min(a+b,U64)
def smul(a,b): return min(a*b,U64)
class CT:
    def __init__(s,anch,zfc): s.anch=anch; s.zfc=zfc
def base_w(ct): return 1124 if ct.anch else 724
def commit_fee(fr,n,ct): return fr*(base_w(ct)+n*172)//1000
def second_stage(ct,fr):
    if ct.anch or ct.zfc: return (0,0)
    return (fr*(706 if ct.anch else 703)//1000, fr*(666 if ct.anch else 663)//1000)
def is_dust(h,local,fr,dust,ct):
    s,t=second_stage(ct,fr)
    f=t if h[0]==local else s
    return h[1]//1000 < dust+f
def htlc_fees(fr,na,no,ct):
    s,t=second_stage(ct,fr); return na*s+no*t
def cphf(local,H,dbf,fr,dust,ct):
    na=sum(1 for h in H if h[0]!=local and not is_dust(h,local,dbf,dust,ct))
    no=sum(1 for h in H if h[0]==local and not is_dust(h,local,dbf,dust,ct))
    return ((commit_fee(fr,na+no,ct)+htlc_fees(fr,na,no,ct))*1000,(commit_fee(fr,na+1+no,ct)+htlc_fees(fr,na+1,no,ct))*1000)
def total_anchors(ct): return 660 if ct.anch else 0
def dust_buffer(fr):
    q = (fr*1250//1000) if fr*1250<=U32 else U32
    return max(min(fr+2530,U32), q)
def dust_exposure(local,H,fr,lim,dust,ct):
    excess=ssub(fr, lim if lim is not None else fr)
    dbf=dust_buffer(fr)
    d=sum(h[1] for h in H if is_dust(h,local,dbf,dust,ct))
    if local or excess==0: return (d,None)
    a,b=cphf(local,H,dbf,excess,dust,ct)
    return (d+a,d+b)
def has_output(ob,h,c,fr,n,dust,ct):
    fee=smul(commit_fee(fr,n,ct),1000)
    if ob: h=ssub(h,fee)
    else: c=ssub(c,fee)
    return not (h<dust*1000 and c<dust*1000 and n==0 and not ct.zfc)
def stats(local,ob,cv,vth,H,addl,fr,spike,lim,dust,ct):
    if cv*1000<vth: return None
    vtc=cv*1000-vth
    out=sum(h[1] for h in H if h[0]); inn=sum(h[1] for h in H if not h[0])
    if vth<out or vtc<inn: return None
    h=vth-out; c=vtc-inn
    anc=total_anchors(ct)*1000
    if ob:
        if h<anc: return None
        h-=anc
    else:
        if c<anc: return None
        c-=anc
    de,_=dust_exposure(local,H,fr,lim,dust,ct)
    sp = min(fr*2,U32) if (spike and not ct.anch) else fr
    spn=sum(1 for x in H if not is_dust(x,local,sp,dust,ct))
    if not has_output(ob,h,c,sp,spn,dust,ct): return None
    n=sum(1 for x in H if not is_dust(x,local,fr,dust,ct))
    fee=smul(commit_fee(sp,n+addl,ct),1000)
    if ob:
        if h<fee: return None
        h-=fee
    else:
        if c<fee: return None
        c-=fee
    return dict(holder=h,cp=c,dust=de)
def adj_holder_fee(cap,ln,rn,fr,sp,cc,ct):
    def rd(n,d):
        mx=commit_fee(sp,n+2,ct); mn=commit_fee(sp,n+1,ct)
        a=ssub(cap,mx*1000)
        if a<d*1000: return min(d*1000-1, ssub(cap,mn*1000))
        return a
    s,t=second_stage(ct,fr)
    return min(rd(ln,cc['hd']+t), rd(rn,cc['cd']+s))
def adj_cp_fee(cap,rbal,ln,rn,fr,cc,ct):
    def rd(n,d):
        f=commit_fee(fr,n+1,ct)
        if rbal < f*1000 + cc['hres']*1000: return min(cap,d*1000-1)
        return cap
    s,t=second_stage(ct,fr)
    return min(rd(ln,cc['hd']+t), rd(rn,cc['cd']+s))
def adj_dust(H,fr,lim,maxd,cc,ct,cap):
    mn=cc['cmin']
    ld,_=dust_exposure(True,H,fr,lim,cc['hd'],ct)
    rd_,ex=dust_exposure(False,H,fr,lim,cc['cd'],ct)
    remaining=None; dl=0
    dbf=dust_buffer(fr)
    bs,bt=second_stage(ct,dbf)
    S=bs+cc['cd']; T=bt+cc['hd']
    if ex is not None and ex>maxd: cap=min(cap, ssub(smul(S,1000),1))
    if sadd(rd_,S*1000) > sadd(maxd,1):
        remaining=ssub(maxd,rd_); dl=max(dl,S*1000)
    if ld + T*1000 - 1 > min(maxd,2**63-1):
        remaining=min(remaining if remaining is not None else U64, ssub(maxd,ld)); dl=max(dl,T*1000)
    if remaining is not None:
        if cap<dl: cap=min(cap,remaining)
        else: mn=max(mn,dl)
    return mn,cap,max(ld,rd_)
def adj_bound(local,ob,hb,cb,fr,n,dust,ct,mn,cap):
    s,t=second_stage(ct,fr)
    mnd=dust+(t if local else s)
    mxd=ssub(smul(mnd,1000),1)
    if not has_output(ob,ssub(hb,mxd),cb,fr,n,dust,ct):
        if cap>=smul(mnd,1000): return (max(smul(mnd,1000),mn),cap)
        cur=commit_fee(fr,0,ct); spk=commit_fee(fr,1,ct)
        mb = max(dust+cur,spk)*1000 if ob else dust*1000
        return (mn, min(ssub(hb,mb),cap))
    return (mn,cap)
def avail(ob,cv,vth,H,fr,lim,maxd,cc,ct):
    sp=min(fr*(2 if not ct.anch else 1),U32)
    ln=sum(1 for h in H if not is_dust(h,True,fr,cc['hd'],ct))
    rn=sum(1 for h in H if not is_dust(h,False,fr,cc['cd'],ct))
    out=sum(h[1] for h in H if h[0]); inn=sum(h[1] for h in H if not h[0])
    anc=smul(total_anchors(ct),1000)
    lb=ssub(vth,out); rb=ssub(cv*1000-vth,inn)
    if ob: lb=ssub(lb,anc)
    else: rb=ssub(rb,anc)
    ocap=ssub(lb,cc['cres']*1000)
    cap = adj_holder_fee(ocap,ln,rn,fr,sp,cc,ct) if ob else adj_cp_fee(ocap,rb,ln,rn,fr,cc,ct)
    mn,cap,de=adj_dust(H,fr,lim,maxd,cc,ct,cap)
    cap=min(cap, ssub(cc['cmaxfl'],out))
    if sum(1 for h in H if h[0])+1 > cc['cmaxn']: cap=0
    mn,cap=adj_bound(True,ob,lb,rb,fr,ln,cc['hd'],ct,mn,cap)
    mn,cap=adj_bound(False,ob,lb,rb,fr,rn,cc['cd'],ct,mn,cap)
    return dict(min=mn,limit=cap,ocap=ocap,dust=de)
