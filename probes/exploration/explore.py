import random, sys
from txb import *
random.seed(int(sys.argv[1]) if len(sys.argv)>1 else 1)
def gen():
    ct=random.choice([CT(False,False),CT(True,False),CT(True,True)])
    cv=random.choice([random.randint(10_000,200_000),random.randint(200_000,20_000_000)])
    fr=0 if ct.zfc else random.choice([253,500,1000,2500,5000,10000,25000,random.randint(253,50000)])
    vth=random.randint(0,cv*1000)
    cc=dict(hd=random.choice([354,546,random.randint(300,2000)]),cd=random.choice([354,546,random.randint(300,2000)]),
            cres=random.choice([0,cv//100,max(cv//100,1000)]),hres=random.choice([0,cv//100,max(cv//100,1000)]),
            cmin=random.choice([0,1,1000,random.randint(0,5000)]),cmaxfl=random.choice([cv*1000,cv*500,U64]),cmaxn=random.choice([483,50,3]))
    H=[]
    for _ in range(random.randint(0,4)):
        amt=random.choice([random.randint(1,5_000_000),random.randint(1,cv*200)])
        H.append((random.random()<0.5,amt))
    lim=random.choice([None,fr,max(253,fr//2)])
    maxd=random.choice([5_000_000, cv*1000, 50_000_000, random.randint(0,10_000_000)])
    ob=random.random()<0.5
    return ct,cv,fr,vth,cc,H,lim,maxd,ob
def valid_now(ct,cv,fr,vth,cc,H,lim,maxd,ob):
    s1=stats(True,ob,cv,vth,H,0,fr,False,lim,cc['hd'],ct)
    s2=stats(False,ob,cv,vth,H,0,fr,False,lim,cc['cd'],ct)
    if s1 is None or s2 is None: return False
    # current balances respect reserves (on the side that must)
    if s1['holder']<cc['cres']*1000 or s2['holder']<cc['cres']*1000: return False
    if s1['cp']<cc['hres']*1000 or s2['cp']<cc['hres']*1000: return False
    if max(s1['dust'],s2['dust'])>maxd: return False
    return True
viol={}
tested=0
for it in range(int(sys.argv[2]) if len(sys.argv)>2 else 100000):
    st=gen()
    ct,cv,fr,vth,cc,H,lim,maxd,ob=st
    if not valid_now(*st): continue
    B=avail(ob,cv,vth,H,fr,lim,maxd,cc,ct)
    lo=max(B['min'],1); hi=B['limit']
    if hi<lo: continue
    for a in set([lo,hi,(lo+hi)//2,min(hi,lo+1),max(lo,hi-1)]):
        tested+=1
        H2=H+[(True,a)]
        addl = 1 if ob else 0
        s1=stats(True,ob,cv,vth,H2,0,fr,False,lim,cc['hd'],ct)
        s2=stats(False,ob,cv,vth,H2,0,fr,False,lim,cc['cd'],ct)
        why=None
        if s1 is None: why='local stats Err'
        elif s2 is None: why='remote stats Err'
        elif s1['holder']<cc['cres']*1000: why='local: holder below reserve'
        elif s2['holder']<cc['cres']*1000: why='remote: holder below reserve'
        elif ob:
            s1b=stats(True,ob,cv,vth,H2,1,fr,True,lim,cc['hd'],ct)
            s2b=stats(False,ob,cv,vth,H2,1,fr,True,lim,cc['cd'],ct)
            if s1b is None: why='local spike stats Err'
            elif s2b is None: why='remote spike stats Err'
            elif s1b['holder']<cc['cres']*1000: why='local spike: below reserve'
            elif s2b['holder']<cc['cres']*1000: why='remote spike: below reserve'
        else:
            if s1['cp']<cc['hres']*1000: why='local: cp below our reserve'
            elif s2['cp']<cc['hres']*1000: why='remote: cp below our reserve'
        if why is None:
            if max(s1['dust'],s2['dust'])>maxd: why='dust exposure above max'
            elif sum(1 for h in H2 if h[0])>cc['cmaxn']: why='too many htlcs'
            elif sum(h[1] for h in H2 if h[0])>cc['cmaxfl']: why='in flight above max'
        if why and why not in viol:
            viol[why]=(a,B,dict(anch=ct.anch,zfc=ct.zfc,cv=cv,fr=fr,vth=vth,cc=cc,H=H,lim=lim,maxd=maxd,ob=ob))
print("tested",tested)
for k,v in viol.items(): print("VIOL",k,v)
