# targeted: zero-reserve channels, tiny balances, to see whether limits guarantee "at least one output" incl. under fee spike
import random, sys
from txb import *
random.seed(int(sys.argv[1]) if len(sys.argv)>1 else 1)
viol={}
tested=0
for it in range(400000):
    ct=random.choice([CT(False,False),CT(True,False),CT(True,True)])
    cv=random.randint(1000,60_000)
    fr=0 if ct.zfc else random.choice([253,500,1000,2500,5000])
    hd=random.choice([354,546]); cd=random.choice([354,546])
    vth=random.choice([random.randint(0,cv*1000), random.randint(0,min(cv*1000,3_000_000)), cv*1000-random.randint(0,min(cv*1000,3_000_000))])
    cc=dict(hd=hd,cd=cd,cres=0,hres=0,cmin=random.choice([0,1,1000]),cmaxfl=U64,cmaxn=483)
    H=[]
    for _ in range(random.randint(0,2)):
        H.append((random.random()<0.5, random.randint(1,400_000)))
    lim=None; maxd=cv*1000
    ob=random.random()<0.5
    s1=stats(True,ob,cv,vth,H,0,fr,False,lim,hd,ct); s2=stats(False,ob,cv,vth,H,0,fr,False,lim,cd,ct)
    if s1 is None or s2 is None: continue
    B=avail(ob,cv,vth,H,fr,lim,maxd,cc,ct)
    lo=max(B['min'],1); hi=B['limit']
    if hi<lo: continue
    for a in set([lo,hi,(lo+hi)//2,min(hi,lo+1),max(lo,hi-1)]):
        tested+=1
        H2=H+[(True,a)]
        r1=stats(True,ob,cv,vth,H2,0,fr,False,lim,hd,ct); r2=stats(False,ob,cv,vth,H2,0,fr,False,lim,cd,ct)
        why=None
        if r1 is None: why='nospike local Err'
        elif r2 is None: why='nospike remote Err'
        elif ob:
            q1=stats(True,ob,cv,vth,H2,1,fr,True,lim,hd,ct); q2=stats(False,ob,cv,vth,H2,1,fr,True,lim,cd,ct)
            if q1 is None: why='spike local Err'
            elif q2 is None: why='spike remote Err'
        if why and why not in viol:
            viol[why]=(a,B,dict(anch=ct.anch,zfc=ct.zfc,cv=cv,fr=fr,vth=vth,hd=hd,cd=cd,H=H,ob=ob))
print("tested",tested)
for k,v in viol.items(): print("VIOL",k,v)
