// PROBE U12/U13: FixedLengthReader::read never asks the inner reader for more than the declared remainder
use vstd::prelude::*;
verus! {
use vstd::std_specs::cmp::*;
pub assume_specification<T: core::cmp::Ord>[core::cmp::min::<T>](a: T, b: T) -> (r: T)
    ensures T::obeys_cmp_spec() ==> r == (if b.cmp_spec(&a) == core::cmp::Ordering::Less { b } else { a });
pub struct IoError {}
// inner reader: std::io::Read contract (returns at most dest.len())
pub struct Reader { pub pos: u64 }
impl Reader {
    #[verifier::external_body]
    pub fn read(&mut self, dest: &mut [u8]) -> (r: Result<usize, IoError>)
        ensures r is Ok ==> r->Ok_0 <= old(dest).len() && final(self).pos == old(self).pos + r->Ok_0,
                r is Err ==> final(self).pos == old(self).pos,
                final(dest).len() == old(dest).len()
    { unimplemented!() }
}
#[verifier::external_body]
pub fn slice_range_mut<'a>(v: &'a mut [u8], start: usize, end: usize) -> (s: &'a mut [u8])
    requires start <= end <= old(v).len()
    ensures s@ == old(v)@.subrange(start as int, end as int), final(s)@.len() == s@.len(), final(v)@.len() == old(v)@.len(),
{ &mut v[start..end] }

pub struct FixedLengthReader<'a> {
	pub read: &'a mut Reader,
	pub bytes_read: u64,
	pub total_bytes: u64,
}
impl<'a> FixedLengthReader<'a> {
	fn read(&mut self, dest: &mut [u8]) -> (r: Result<usize, IoError>)
        requires old(self).bytes_read <= old(self).total_bytes
        ensures
            // (P) never reads past the declared length
            final(self).bytes_read <= final(self).total_bytes, final(self).total_bytes == old(self).total_bytes,
            r is Ok ==> final(self).bytes_read == old(self).bytes_read + r->Ok_0 && r->Ok_0 <= old(dest).len(),
            // the inner reader advanced by exactly what was reported
            r is Ok ==> final(self).read.pos == old(self).read.pos + r->Ok_0,
            old(self).bytes_read == old(self).total_bytes ==> r == Ok::<usize, IoError>(0) && final(self).read.pos == old(self).read.pos,
    {
		if self.total_bytes == self.bytes_read {
			Ok(0)
		} else {
			let read_len = core::cmp::min(dest.len() as u64, self.total_bytes - self.bytes_read);
			match self.read.read(slice_range_mut(dest, 0, read_len as usize)) {
				Ok(v) => {
					self.bytes_read += v as u64;
					Ok(v)
				},
				Err(e) => Err(e),
			}
		}
	}
}
}
fn main() {}
