use vstd::prelude::*;
verus! {
pub const MPP_TIMEOUT_TICKS: u8 = 3;
pub const HTLC_FAIL_BACK_BUFFER: u32 = 39;
pub struct MppPart { pub cltv_expiry: u32, pub sender_intended_value: u64, pub timer_ticks: u8 }
pub struct RecipientOnionFields { pub total_mpp_amount_msat: u64 }
impl MppPart {
	fn check_onchain_timeout(&self, height: u32) -> (r: bool)
        requires self.cltv_expiry >= HTLC_FAIL_BACK_BUFFER
        ensures r == (height as int >= self.cltv_expiry as int - HTLC_FAIL_BACK_BUFFER as int)
    {
		height >= self.cltv_expiry - HTLC_FAIL_BACK_BUFFER
	}
}
fn check_mpp_timeout(htlcs: &mut Vec<MppPart>, onion_fields: &RecipientOnionFields) -> (r: bool)
{
	let total_mpp_value = onion_fields.total_mpp_amount_msat;
	let mut total_intended_recvd_value = 0;
	let mut timed_out = false;
	for htlc in htlcs.iter_mut() {
		total_intended_recvd_value += htlc.sender_intended_value;
		htlc.timer_ticks += 1;
		if htlc.timer_ticks >= MPP_TIMEOUT_TICKS {
			timed_out = true;
		}
	}
	if total_intended_recvd_value >= total_mpp_value {
		return false;
	}
	timed_out
}
}
fn main() {}
