// PROBE U19: MonitorUpdatingPersister clean-up never removes an update above the stored monitor's latest_update_id
// (async bodies verbatim modulo R3 logs, R5 stubs). Trace property expressed as a PRECONDITION of the external `remove`.
use vstd::prelude::*;
verus! {
pub struct IoError {}
pub struct StrKey(pub u64);                // opaque string; the u64 is its abstract identity
pub struct UpdateName(pub u64, pub StrKey);
// abstract on-disk fact, assumed stable while the function runs (no concurrent writer): latest id of the stored full monitor
pub uninterp spec fn stored_latest(monitor_key: u64) -> u64;
// the textual name of an update determines its id (UpdateName::new parses it)
pub uninterp spec fn id_of_name(name: u64) -> u64;

impl UpdateName {
    #[verifier::external_body]
	pub fn new(name: StrKey) -> (r: Result<Self, IoError>) ensures r is Ok ==> r->Ok_0.0 == id_of_name(name.0) && r->Ok_0.1.0 == name.0 { unimplemented!() }
    #[verifier::external_body]
	pub fn from(id: u64) -> (r: Self) ensures r.0 == id, id_of_name(r.1.0) == id { unimplemented!() }
    #[verifier::external_body]
	pub fn as_str(&self) -> (r: &StrKey) ensures r.0 == self.1.0 { unimplemented!() }
}
pub struct KVStore {}
impl KVStore {
    #[verifier::external_body]
	pub async fn list(&self, primary: &StrKey, secondary: &StrKey) -> (r: Result<Vec<StrKey>, IoError>) { unimplemented!() }
    // (P) the obligation every caller must discharge: an incremental update may only be deleted if the stored full monitor already includes it
    #[verifier::external_body]
	pub async fn remove(&self, primary: &StrKey, secondary: &StrKey, key: &StrKey, lazy: bool) -> (r: Result<(), IoError>)
        requires id_of_name(key.0) <= stored_latest(secondary.0)
    { unimplemented!() }
}
pub struct MonitorUpdatingPersisterAsync { pub kv_store: KVStore }
#[verifier::external_body] pub fn update_ns() -> StrKey { unimplemented!() }

impl MonitorUpdatingPersisterAsync {
	async fn cleanup_stale_updates_for_monitor_to(
		&self, monitor_key: &StrKey, latest_update_id: u64, lazy: bool,
	) -> (r: Result<(), IoError>)
        requires latest_update_id <= stored_latest(monitor_key.0)
    {
		let primary = update_ns();
		let updates = self.kv_store.list(&primary, monitor_key).await?;
		for update in updates
            invariant latest_update_id <= stored_latest(monitor_key.0)
        {
			let update_name = UpdateName::new(update)?;
			// if the update_id is lower than the stored monitor, delete
			if update_name.0 <= latest_update_id {
				self.kv_store.remove(&primary, monitor_key, update_name.as_str(), lazy).await?;
			}
		}
		Ok(())
	}

	// Cleans up monitor updates for given monitor in range `start..=end`.
	async fn cleanup_in_range(&self, monitor_key: &StrKey, start: u64, end: u64)
        requires end <= stored_latest(monitor_key.0), end < u64::MAX
    {
		// R13: `for update_id in start..=end` as an explicit loop over the inclusive range
		let mut __cur = start;
        let mut __done = start > end;
		while !__done
            invariant end <= stored_latest(monitor_key.0), end < u64::MAX, !__done ==> __cur <= end,
            decreases (if __done { 0int } else { end - __cur + 1 })
        {
            let update_id = __cur;
            if __cur == end { __done = true; } else { __cur = __cur + 1; }
			let update_name = UpdateName::from(update_id);
			let primary = update_ns();
			let key = monitor_key;
			let res = self.kv_store.remove(&primary, key, update_name.as_str(), true).await;
			if let Err(e) = res {
			};
		}
	}
}
}
fn main() {}
