use vstd::prelude::*;
verus! {
pub struct Hd { pub h: u32, pub id: u64, pub prev: u64 }
pub struct Pl {}
impl Pl {
  #[verifier::external_body]
  async fn prev(&mut self, x: &Hd) -> (r: Result<Hd, ()>)
    ensures r is Ok ==> r->Ok_0.id == x.prev && r->Ok_0.h + 1 == x.h
  { unimplemented!() }
}
#[verifier::exec_allows_no_decreases_clause]
async fn walk(p: &mut Pl, cur: Hd, old: Hd) -> (r: Result<Hd, ()>)
  ensures r is Ok ==> r->Ok_0.id == old.id
{
    let mut c = cur;
    loop 
      invariant true
    {
        if c.id == old.id { break; }
        c = p.prev(&c).await?;
    }
    Ok(c)
}
}
fn main() {}
