use vstd::prelude::*;
use std::collections::HashSet;
verus! {
broadcast use vstd::std_specs::hash::group_hash_axioms;
pub struct Path { pub v: u64, pub f: u64 }
impl Path {
    #[verifier::external_body]
    pub fn final_value_msat(&self) -> (r: u64) ensures r == self.v { self.v }
    #[verifier::external_body]
    pub fn fee_msat(&self) -> (r: u64) ensures r == self.f { self.f }
}
#[allow(inconsistent_fields)]
pub enum P {
    Legacy { session_privs: HashSet<[u8; 32]> },
    AwaitingInvoice { x: u64 },
    Retryable { session_privs: HashSet<[u8; 32]>, pending_amt_msat: u64, pending_fee_msat: Option<u64>, total_msat: u64, remaining_max_total_routing_fee_msat: Option<u64> },
    Fulfilled { session_privs: HashSet<[u8; 32]>, total_msat: Option<u64>, fee_paid_msat: Option<u64> },
    Abandoned { session_privs: HashSet<[u8; 32]>, total_msat: Option<u64>, pending_fee_msat: Option<u64> },
}
#[verifier::external_body]
fn new_hash_set() -> (r: HashSet<[u8; 32]>) ensures r@ == Set::<[u8;32]>::empty() { HashSet::new() }

impl P {
	fn mark_fulfilled(&mut self) 
       ensures (*old(self)) is Retryable ==> (*final(self)) is Fulfilled
    {
		let mut session_privs = new_hash_set();
		core::mem::swap(&mut session_privs, match self {
			P::Legacy { session_privs } => session_privs,
				P::Retryable { session_privs, .. } => session_privs,
				P::Fulfilled { session_privs, .. } => session_privs,
				P::Abandoned { session_privs, .. } => session_privs,
			P::AwaitingInvoice { .. } => { debug_assert!(false); return; },
		});
		*self = P::Fulfilled { session_privs, total_msat: None, fee_paid_msat: None };
	}
	fn remove(&mut self, session_priv: &[u8; 32], path: Option<&Path>) -> bool {
		let remove_res = match self {
			P::Legacy { session_privs } => { session_privs.remove(session_priv) },
				P::Retryable { session_privs, .. } => { session_privs.remove(session_priv) },
				P::Fulfilled { session_privs, .. } => { session_privs.remove(session_priv) },
				P::Abandoned { session_privs, .. } => {
					session_privs.remove(session_priv)
				},
			P::AwaitingInvoice { .. } => { debug_assert!(false); false },
		};
		if remove_res {
			if let P::Retryable {
				ref mut pending_amt_msat, ref mut pending_fee_msat,
				ref mut remaining_max_total_routing_fee_msat, ..
			} = self {
				let path = path.expect("Removing a failed payment should always come with a path");
				*pending_amt_msat -= path.final_value_msat();
				let path_fee_msat = path.fee_msat();
				if let Some(fee_msat) = pending_fee_msat.as_mut() {
					*fee_msat -= path_fee_msat;
				}
				if let Some(max_total_routing_fee_msat) = remaining_max_total_routing_fee_msat.as_mut() {
					*max_total_routing_fee_msat = max_total_routing_fee_msat.saturating_add(path_fee_msat);
				}
			}
		}
		remove_res
	}
}
}
fn main() {}
