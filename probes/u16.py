probe = open('/verif/probes/u16_router_fees_fixed.rs').read()
def between(a, b):
    i = probe.index(a); j = probe.index(b, i); return probe[i:j]
specs = between('// amount carried over hop j', 'impl PaymentPath {')
T = '''//! unit: u16
//! properties: C16
//! note: router fee arithmetic: compute_fees and PaymentPath::update_value_and_recompute_fees, paths of any length
//! trusted: CandidateRouteHop is a stub {min, f} whose htlc_minimum_msat()/fees() accessors are external_body pure functions; NodeFeatures opaque; lifetimes dropped (R5)
//! assume: fits(path, value): the ideal per-hop amounts and fee products fit 60 bits (established by callers via compute_max_final_value_contribution; LDK's unreachable!() relies on it); path_penalty_msat <= 2^60; at most 100 hops
use vstd::prelude::*;
verus! {
pub struct CandidateRouteHop { pub min: u64, pub f: RoutingFees }
impl CandidateRouteHop {
  #[verifier::external_body] pub fn htlc_minimum_msat(&self) -> (r: u64) ensures r == self.min { self.min }
  #[verifier::external_body] pub fn fees(&self) -> (r: RoutingFees) ensures r == self.f { self.f }
}
pub struct NodeFeatures {}
//@extract lightning-types/src/routing.rs :: struct RoutingFees
//@derive Clone Copy
//@end
//@extract lightning/src/routing/router.rs :: struct PathBuildingHop
//@rw * R5
    <'a>
//@with
//@end
//@extract lightning/src/routing/router.rs :: struct PaymentPath
//@rw * R5
    <'a>
//@with
//@end

pub open spec fn fees_spec(amt: int, f: RoutingFees) -> int { f.base_msat as int + amt * (f.proportional_millionths as int) / 1_000_000 }

//@extract lightning/src/routing/router.rs :: fn compute_fees
//@ret r
//@ensures P C16 fee-is-the-advertised-policy-formula
    r is Some ==> r->Some_0 as int == fees_spec(amount_msat as int, channel_fees),
    r is None <==> (amount_msat as int * channel_fees.proportional_millionths as int > u64::MAX
        || fees_spec(amount_msat as int, channel_fees) > u64::MAX),
//@rw R9
    .and_then(|$p:ident| $body)
//@with
    .and_then(|$p: u64| -> (o: Option<u64>)
        ensures o == (if channel_fees.base_msat as int + $p as int / 1_000_000 <= u64::MAX { Some((channel_fees.base_msat as int + $p as int / 1_000_000) as u64) } else { None::<u64> })
        { $body })
//@mutant base_fee_dropped
    (channel_fees.base_msat as u64).checked_add(part / 1_000_000)
//@with
    (0 as u64).checked_add(part / 1_000_000)
//@end

//@extract lightning/src/routing/router.rs :: fn compute_fees_saturating
//@ret r
//@ensures A saturating-variant-never-below-the-formula
    r as int == (if amount_msat as int * channel_fees.proportional_millionths as int > u64::MAX || fees_spec(amount_msat as int, channel_fees) > u64::MAX { u64::MAX as int } else { fees_spec(amount_msat as int, channel_fees) }),
//@rw R9
    .map(|$p:ident| $body)
//@with
    .map(|$p: u64| -> (o: u64) ensures o == $p / 1_000_000 { $body })
//@end

''' + specs + '''
impl PaymentPath {
//@extract lightning/src/routing/router.rs :: impl PaymentPath :: fn get_value_msat
//@ret r
//@requires
    self.hops.len() >= 1
//@ensures A
    r == self.hops[self.hops.len() - 1].0.fee_msat
//@end
//@extract lightning/src/routing/router.rs :: impl PaymentPath :: fn update_value_and_recompute_fees
//@ret ret
//@requires
    old(self).hops.len() >= 1, old(self).hops.len() <= 100,
    fits(old(self).hops@, value_msat as int),
    forall|k: int| 0 <= k < old(self).hops.len() ==> old(self).hops[k].0.path_penalty_msat <= 0x0fff_ffff_ffff_ffff,
//@ensures P C16 every-forwarding-node-paid-its-advertised-fee-and-every-hop-carries-its-minimum
    route_ok_from(final(self).hops@, 0),
//@ensures A frame-and-return-value
    same_candidates(final(self).hops@, old(self).hops@),
    ret == final(self).hops[final(self).hops.len() - 1].0.fee_msat,
    ret >= value_msat,
//@at before_loop 1
    let ghost n = self.hops.len() as int;
    let ghost h0 = self.hops@;
    let ghost v = value_msat as int;
    proof { lemma_tspec_mono(h0, v, 0); assert(v <= tspec(h0, v, 0)); }
//@loop 1 iter=iter
    invariant
        self.hops.len() == n, n >= 1, n <= 100, h0.len() == n, v == value_msat, value_msat <= 0x0fff_ffff_ffff_ffff,
        iter.seq().len() == n,
        forall|j: int| 0 <= j < n ==> iter.seq()[j] == n - 1 - j,
        same_candidates(self.hops@, h0),
        fits(h0, v),
        forall|k: int| 0 <= k < n - iter.index@ ==> self.hops[k].0.path_penalty_msat <= 0x0fff_ffff_ffff_ffff,
        iter.index@ == 0 ==> total_fee_paid_msat == 0 && extra_contribution_msat == 0,
        iter.index@ >= 1 ==> ({
            let p = n - iter.index@;
            &&& route_ok_from(self.hops@, p)
            &&& carried(self.hops@, p) == tspec(h0, v, p)
            &&& extra_contribution_msat == self.hops[n - 1].0.fee_msat - value_msat
            &&& extra_contribution_msat <= 0x0fff_ffff_ffff_ffff
            &&& p >= 1 ==> (total_fee_paid_msat + value_msat + extra_contribution_msat == tspec(h0, v, p) + self.hops[p].0.hop_use_fee_msat
                           && self.hops[p].0.hop_use_fee_msat == fees_spec(tspec(h0, v, p), h0[p].0.candidate.f))
        }),
//@at loop_body_start 1
    let ghost pre = self.hops@;
    proof { assert(i == n - 1 - iter.index@); lemma_tspec_mono(h0, v, i as int); lemma_tspec_mono(h0, v, 0);
            assert(tspec(h0, v, 0) >= tspec(h0, v, i as int));
            if i < n - 1 {
                assert(tspec(h0, v, i as int) >= tspec(h0, v, i as int + 1) + fees_spec(tspec(h0, v, i as int + 1), h0[i as int + 1].0.candidate.f));
            }
    }
//@at before `if i != 0 {`
    proof { assert(cur_hop_transferred_amount_msat as int == tspec(h0, v, i as int)); }
//@at loop_body_end 1
    proof {
        let post = self.hops@;
        assert(forall|k: int| 0 <= k < n && k != i ==> post[k] == pre[k]);
        lemma_carried_suffix(post, pre, i as int + 1);
        assert(carried(post, i as int) == post[i as int].0.fee_msat + carried(post, i as int + 1));
        assert forall|j: int| i < j < n implies carried(post, j) == carried(pre, j) by { lemma_carried_suffix(post, pre, j); }
    }
//@mutant min_not_enforced_on_intermediate_hops
    total_fee_paid_msat += extra_fees_msat; cur_hop_fees_msat += extra_fees_msat;
//@with
    total_fee_paid_msat += extra_fees_msat;
//@end
}
}
fn main() {}
'''
open('/verif/units/u16.rs', 'w').write(T)
