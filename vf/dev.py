"""Developer tool:  python3 -m vf.dev <unit> [--show] [--mutants] [--diff]"""
import sys
import os
sys.path.insert(0, os.path.dirname(os.path.dirname(os.path.abspath(__file__))))
from vf import driver as D


def main():
    units = D.load_units()
    name = sys.argv[1]
    u = units[name]
    if '--show' in sys.argv:
        asm = u.assemble()
        print(asm.text)
        return
    if '--mutants' in sys.argv:
        for r in D.run_mutants(u):
            print(r)
        return
    o = D.run_unit(u)
    try:
        _i = u.assemble().info
        for n in _i.get('skipped_loop_annotations', []) + _i.get('skipped_optional_extracts', []):
            print('NOTE', n)
    except Exception:
        pass
    print('status', o.status, 'verified', o.res and o.res.verified, 'errors', o.res and o.res.errors, 'vac_ok', o.vac_ok,
          'wall %.1fs' % (o.res.wall_s if o.res else 0))
    for r in o.reasons:
        print('REASON', r)
    for f in o.failed:
        print('FAILED', f['function'], '|', f['message'], '|', f['clause'] and (f['clause']['kind'], f['clause']['tag']))
        for w in f['where']:
            print('     ', w)


if __name__ == '__main__':
    main()
