"""Regenerate /verif/MANIFEST.json from the units on disk, the Kani groups and vf/props.py.

python3 -m vf.mkmanifest
"""
import json
import os
import subprocess
import sys

sys.path.insert(0, os.path.dirname(os.path.dirname(os.path.abspath(__file__))))
from vf import driver as D, props as P, kani as K  # noqa

NA = {}


def main():
    units = D.load_units()
    claimed = {}
    for u in units.values():
        for p in u.header['properties']:
            claimed.setdefault(p, {'units': [], 'kani': []})['units'].append(u.name)
    for p, gs in K.GROUPS.items():
        if gs:
            claimed.setdefault(p, {'units': [], 'kani': []})['kani'] = [g['name'] for g in gs]
    checks = []
    for p in sorted(claimed):
        meta = P.PROPS[p]
        c = claimed[p]
        tech = []
        if c['units']:
            tech.append('Verus (Z3) deductive proof of contracts spliced onto functions extracted mechanically from /repo on every run (units %s)' % ', '.join(sorted(c['units'])))
        if c['kani']:
            tech.append('Kani/CBMC harnesses in place on the real crate (%s)' % ', '.join(c['kani']))
        checks.append({
            'property_id': p,
            'quick_cmd': './check %s --tier quick' % p,
            'thorough_cmd': './check %s --tier thorough' % p,
            'evidence_file': '/verif/evidence/%s.json' % p,
            'replay_cmd_template': './check %s --replay {path}' % p,
            'engine': 'contracts',
            'level_claimed': {
                'category': 'proof',
                'text': meta.get('level_text', 'Function contracts on the real code, discharged for all inputs and all iterations by a deductive verifier; '
                                              'claimed only for the clauses listed in DESIGN %s (kernel functions of the property), not for the whole-system statement.' % meta['design_ref']),
                'design_ref': meta['design_ref'],
            },
            'level_note': meta.get('level_note', 'Trusted: Z3/Verus (and CBMC/Kani where used), the extraction rewrite rules logged in the evidence, env stubs of foreign types, uninterpreted cryptography, '
                                                 'numeric-range preconditions listed under assumptions. NOT decided: ' + '; '.join(meta['not_decided'])),
            'technique': 'contract-based deductive verification: ' + ' + '.join(tech),
        })
    na = []
    for p in sorted(P.PROPS.keys() | NA.keys()):
        if p in claimed:
            continue
        na.append({'property_id': p, 'reason': NA.get(p, 'not claimed yet: the unit planned for it in DESIGN %s has not reached a stable green; nothing is asserted about it' % P.PROPS.get(p, {}).get('design_ref', ''))})
    hooks_file = os.path.join(D.VERIF, 'hooks', 'commits.json')
    source_commits = json.load(open(hooks_file)) if os.path.exists(hooks_file) else []
    man = {
        'version': 1,
        'setup_cmd': 'cd /verif && ./setup.sh',
        'hooks': {
            'guard': 'cfg(kani) / cfg(ldk_verif)  (rustc --cfg flags; kani is set by cargo-kani itself, ldk_verif by RUSTFLAGS="--cfg ldk_verif" for native replay builds)',
            'enable': 'cargo kani (sets cfg(kani)) or RUSTFLAGS="--cfg ldk_verif" cargo build; the Verus route needs no hook: it extracts the functions from the working tree',
            'baseline_off_cmd': 'cd /repo && cargo nextest run --workspace --no-fail-fast --tool-config-file pb:/w/lib/nextest.toml --profile pb --test-threads 8 --offline',
            'source_commits': source_commits,
            'add_only': True,
        },
        'engines': [{'name': 'contracts', 'path': '/verif/check', 'serves_properties': sorted(claimed),
                     'kind_free_text': 'python3 driver: mechanical extraction + contract splicing + Verus; cargo kani in place for codecs'}],
        'checks': checks,
        'not_applicable': na,
        'notes': 'exit 2 from a check means undecided (lost anchor / construct outside the extraction rules / tool limit), never a violation. See DESIGN.md.',
    }
    with open(os.path.join(D.VERIF, 'MANIFEST.json'), 'w') as f:
        json.dump(man, f, indent=1)
    print('claimed', sorted(claimed), 'n/a', [x['property_id'] for x in na])


if __name__ == '__main__':
    main()
