"""Per-property metadata: what is claimed, what is left undecided (DESIGN §3)."""

PROPS = {
    'C01': {
        'design_ref': '§C01',
        'not_decided': [
            'which HTLCs are in the next commitment (get_next_commitment_htlcs, two-phase commit, holding cell, reestablish)',
            'agreement between the two nodes; absence of signature failures / force closes',
            'the position at which build_outputs_and_htlcs inserts a non-HTLC output (binary_search_by; the HTLC sort, the index fix-up, the output set and the second-stage transactions are under contract)', 'script contents (uninterpreted)',
        ],
    },
    'C02': {
        'design_ref': '§C02',
        'not_decided': [
            'claim upstream whenever the preimage is known', 'fail back only after irrevocable removal', 'when an RAA blocker must be registered and that a held monitor update is not released while the list is non-empty (only the registering / releasing statements are under contract)',
            'restart replay', 'ordering properties of channelmanager.rs',
        ],
    },
    'C03': {'design_ref': '§C03', 'not_decided': ['event emission (exactly one terminal event)', 'duplicate-id refusal', 'restart reconstruction', 'peeling and authenticating the failure onion (only the classification of a decoded failure is under contract)', 'balances']},
    'C04': {'design_ref': '§C04', 'not_decided': ['the cryptography itself (HMAC-SHA256 / SHA256 / ChaCha20 are uninterpreted: that the secret is checked against the right HMAC is proved, that HMACs cannot be forged is assumed)', 'decryption of the payment metadata', 'the block/timer loops that call the per-HTLC expiry tests (only check_mpp_timeout, check_onchain_timeout and the advertised claim deadline are under contract)', 'all-or-nothing claim across channels']},
    'C05': {'design_ref': '§C05', 'not_decided': ['release of a secret only after a newer signed commitment', 'at most one unrevoked counterparty commitment',
                                                  'comparison of the secret with the announced point in revoke_and_ack', 'reestablish', 'restart']},
    'C06': {'design_ref': '§C05', 'not_decided': ['recognising the revoked transaction', 'consensus validity of the justice transaction as a whole (scripts, witnesses; the signing key, the signed script operands and the claim per output are under contract, the cryptography is uninterpreted)', 'the re-issuing loop of OnchainTxHandler (only the bump arithmetic feerate_bump / get_height_timer is under contract)', 'reload']},
    'C07': {'design_ref': '§C07', 'not_decided': ['which outputs are claimed', 'consensus validity/finality', 'get_claimable_balances conservation', 'anchors with external inputs', 'OutputSweeper scheduling and signing of sweeps (the change / feerate arithmetic and the inputs are under contract)']},
    'C08': {'design_ref': '§C08', 'not_decided': ['that the monitor evaluates the (sliced, proved) go-on-chain test for every HTLC of every commitment and acts on it', 'automatic fail-back on new blocks', 'fail-back only after burial']},
    'C09': {'design_ref': '§C09', 'not_decided': ['that every state-advancing handler ends in monitor_updating_paused and returns the update instead of messages', 'that ChannelManager releases held messages only after every in-flight update of the channel completed (handle_new_monitor_update / channel_monitor_updated / handle_channel_resumption)', 'gap-free delivery order of updates to chain::Watch across the blocked-update queue and the two sites that do not increment (force_shutdown, free_holding_cell_htlcs)', 'deferred ChainMonitor mode (flush)', 'all completion orders and delays: a whole-history statement, only the per-call bookkeeping is decided']},
    'C10': {'design_ref': '§C10', 'not_decided': ['the crash-point quantifier: every prefix of the sequence of durable writes (whole-history statement)', 'deserialization of ChannelManager as a whole', 'replay of in-flight monitor updates and of pending claims', 'reconstruction of payments and HTLC resolutions from monitors', 'persistence and re-delivery of events', 'process_background_events ordering']},
    'C11': {'design_ref': '§C11', 'not_decided': ['independence from the delivery style', 'idempotent re-delivery', 'events already acted upon']},
    'C12': {'design_ref': '§C12', 'not_decided': ['round trip of ChannelManager, ChannelMonitor (only the length-prefixed loop bounds and the legacy event records are under contract), ChannelMonitorUpdate, graph, scorer, sweeper', 'behavioural equivalence after reload']},
    'C13': {'design_ref': '§C12', 'not_decided': ['messages with keys/signatures', 'feature vectors', 'decoding totality on arbitrary-length input']},
    'C14': {'design_ref': '§C14', 'not_decided': ['that peeling yields each hop payload (ChaCha20 stream, filler correctness)', 'the cryptography itself (HMAC uninterpreted: that the gate compares against the HMAC of hop data + payment hash is proved)', 'failure attribution to the right hop']},
    'C15': {'design_ref': '§C15', 'not_decided': ['handshake acts (ECDH)', 'back-pressure (pausing and resuming reads) and message dispatch after decryption in peer_handler.rs', 'Init-before-anything', 'panic freedom of the rest of the peer handler']},
    'C16': {'design_ref': '§C16', 'not_decided': ['connectivity', 'capacity shared across paths', 'limits', 'does not report failure when a path exists (get_route)']},
    'C17': {'design_ref': '§C17', 'not_decided': ['the signature on channel_update (secp_verify_sig! inside update_channel_internal) and the cryptography itself (uninterpreted)', 'rejection of updates for unknown channels (map lookup)', 'removal of permanently failed channels and of nodes left without channels', 'order-independence and duplication-insensitivity of the whole graph (history property)', 'serialization of the graph', 'rapid-gossip-sync snapshots', 'that the sliced tests are applied on every path that stores information']},
    'C18': {'design_ref': '§C18', 'not_decided': ['the cryptography itself (ECDSA / Schnorr uninterpreted: that each object is checked against the right key over the right hash is proved)', 'bech32 checksum', 'merkle root construction', 'that the TLV bytes a builder feeds the metadata HMAC are the concatenation of the records the verifier iterates (assumed)', 'string-level parsing totality', 'BOLT-12 TLV stream parsing and semantic validation other than the amount ranges and the signature checks']},
    'C19': {'design_ref': '§C19', 'not_decided': ['atomic map behaviour of FilesystemStore beyond the per-key version order (temporary file + rename, listing, concurrency)', 'crash recovery as a whole-history property', 'the update-vs-full-monitor decision of update_persisted_channel', 'reading and applying the sorted, filtered updates (only the sort and the filter are under contract)']},
    'C20': {'design_ref': '§C20', 'not_decided': ['the notification calls themselves (connect_blocks)', 'cache eviction', 'synchronize_listeners as a whole (three of its tests are under contract)', 'behaviour under source errors', 'termination']},
}
