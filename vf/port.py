"""Developer tool: derive an //@extract block from a hand-annotated probe function.

python3 -m vf.port <probe.rs> <probe fn name[#k]> <repo file> '<item path>' [--strip a,b] [--r7]

Token-diffs the real item (after the generic rules) against the annotated copy in the probe and prints
directives: //@ret //@requires //@ensures for the contract, //@at after `ctx` for inserted ghost code and
//@rw for replaced code.  The output is a DRAFT for a unit file; nothing here runs in a check.
"""
import difflib
import re
import sys
import os
sys.path.insert(0, os.path.dirname(os.path.dirname(os.path.abspath(__file__))))
from vf import extract as X
from vf import unit as U
from vf.rustlex import lex, render, match_close, Tok


def find_fn(toks, name, k=1):
    seen = 0
    for i, t in enumerate(toks):
        if t.kind == 'ident' and t.text == 'fn' and i + 1 < len(toks) and toks[i + 1].text == name:
            seen += 1
            if seen == k:
                # start: include qualifiers
                s = i
                while s > 0 and toks[s - 1].kind == 'ident' and toks[s - 1].text in ('pub', 'async', 'const', 'unsafe'):
                    s -= 1
                # body
                j = i
                while toks[j].text != '{':
                    if toks[j].text in ('(', '['):
                        j = match_close(toks, j)
                    j += 1
                e = match_close(toks, j)
                return toks[s:e + 1]
    raise SystemExit('probe fn %s not found' % name)


def split_clauses(toks):
    """tokens between the return type and the body: requires.. ensures.. decreases.. -> dict kind -> text"""
    res = {}
    cur = None
    buf = []
    for t in toks:
        if t.kind == 'ident' and t.text in ('requires', 'ensures', 'decreases') :
            if cur:
                res[cur] = render(buf)
            cur = t.text
            buf = []
        else:
            buf.append(t)
    if cur:
        res[cur] = render(buf)
    return res


def uniq_ctx(S, idx, body_lo, body_hi, side='after'):
    """context tokens ending at S[idx-1] (after) that match exactly once in the body."""
    for K in range(3, 16):
        lo = max(body_lo, idx - K)
        ctx = S[lo:idx]
        if not ctx:
            return None, None
        texts = [t.text for t in ctx]
        cnt = 0
        pos = []
        for j in range(body_lo, body_hi - len(texts) + 1):
            if [t.text for t in S[j:j + len(texts)]] == texts:
                cnt += 1
                pos.append(j)
        if cnt == 1:
            return ' '.join(texts), None
        if lo == body_lo:
            break
    # fall back to nth
    nth = pos.index(lo) + 1 if lo in pos else 1
    return ' '.join(texts), nth


def main():
    probe, fname, rfile, ipath = sys.argv[1:5]
    strip = []
    r7 = '--r7' in sys.argv
    if '--strip' in sys.argv:
        strip = sys.argv[sys.argv.index('--strip') + 1].split(',')
    k = 1
    if '#' in fname:
        fname, k = fname.split('#')
        k = int(k)
    ptoks, _ = lex(open(probe).read().replace('core::cmp::', 'cmp::'), 'unit', 1)
    P = find_fn(ptoks, fname, k)
    rt = U.repo_tokens(rfile)
    (s, kw, e) = X.locate(rt, ipath)
    S = [t.copy() for t in rt[s:e]]
    log = []
    S = X.apply_attrs_and_cfg(S, dict(X.CFG_DEFAULT), log)
    S = X.drop_logs(S, log)
    S = X.strip_paths(S, strip, log)
    S = X.normalise_vis(S)
    S = X.assert_eq_rule(S, log)
    if r7:
        S = X.split_or_patterns(S, log)
    ps = X.fn_parts(S)
    pp = X.fn_parts(P)
    out = []
    out.append('//@extract %s :: %s' % (rfile, ipath))
    if strip:
        out.append('//@strip ' + ' '.join(strip))
    if r7:
        out.append('//@r7')
    # ---- contract
    if pp['arrow'] is not None and P[pp['arrow'] + 1].text == '(' and P[pp['arrow'] + 3].text == ':':
        out.append('//@ret ' + P[pp['arrow'] + 2].text)
        tyclose = match_close(P, pp['arrow'] + 1)
        clause_toks = P[tyclose + 1:pp['body']]
    else:
        clause_toks = P[(pp['rp'] + 1):pp['body']]
    cl = split_clauses(clause_toks)
    for kind in ('requires', 'ensures', 'decreases'):
        if kind in cl:
            out.append('//@%s%s' % (kind, ' A' if kind == 'ensures' else ''))
            out.append('    ' + cl[kind].strip())
    # ---- signature differences (params)
    ssig = [t.text for t in S[ps['fn']:ps['rp'] + 1]]
    psig = [t.text for t in P[pp['fn']:pp['rp'] + 1]]
    if ssig != psig:
        out.append('//  NOTE signature differs: source `%s`' % ' '.join(ssig))
        out.append('//                          probe  `%s`' % ' '.join(psig))
    # ---- body diff
    SB = S[ps['body']:ps['body_end'] + 1]
    PB = P[pp['body']:pp['body_end'] + 1]
    sm = difflib.SequenceMatcher(a=[t.text for t in SB], b=[t.text for t in PB], autojunk=False)
    for tag, i1, i2, j1, j2 in sm.get_opcodes():
        if tag == 'equal':
            continue
        new = render(PB[j1:j2]).strip('\n')
        if tag == 'insert':
            if i1 == 1:
                out.append('//@at body_start')
            else:
                ctx, nth = uniq_ctx(SB, i1, 0, len(SB))
                out.append('//@at after `%s`%s' % (ctx, (' %d' % nth) if nth else ''))
            out.extend('    ' + l for l in new.split('\n'))
        else:
            old = ' '.join(t.text for t in SB[i1:i2])
            # widen with left context until unique
            lo = i1
            while True:
                texts = [t.text for t in SB[lo:i2]]
                cnt = sum(1 for j in range(0, len(SB) - len(texts) + 1) if [t.text for t in SB[j:j + len(texts)]] == texts)
                if cnt == 1 or lo == 0:
                    break
                lo -= 1
            ctx = ' '.join(t.text for t in SB[lo:i1])
            out.append('//@rw%s R8' % ('' if cnt == 1 else ' nth=1'))
            out.append('    ' + ' '.join(t.text for t in SB[lo:i2]))
            out.append('//@with')
            out.append('    ' + (ctx + ' ' if ctx else '') + new.replace('\n', '\n    '))
    out.append('//@end')
    print('\n'.join(out))


if __name__ == '__main__':
    main()
