"""check driver: property -> units -> verdict, evidence, violation reports."""
import concurrent.futures as cf
import hashlib
import json
import os
import re
import subprocess
import sys
import time

from . import unit as U
from . import verus as V
from .extract import Maintenance

VERIF = os.path.dirname(os.path.dirname(os.path.abspath(__file__)))
UNITS = os.environ.get('VERIF_UNITS') or os.path.join(VERIF, 'units')   # VERIF_UNITS: scratch directory for a unit under development (vf.dev only)
TRUSTED_PATTERNS = ('assume(', 'admit(', 'external_body', 'assume_specification', 'external_fn_specification', 'external_type_specification',
                    'external]', 'verifier::external', 'axiom')


def load_units():
    res = {}
    for f in sorted(os.listdir(UNITS)):
        if f.endswith('.rs'):
            u = U.Unit(os.path.join(UNITS, f))
            res[u.name] = u
            # guard: a clause tagged with a property the unit's header does not list would never be run by that property's check
            txt = open(os.path.join(UNITS, f)).read()
            tags = set()
            for m in re.finditer(r'^//@ensures P ([C0-9,]+)', txt, re.M):
                tags |= set(m.group(1).split(','))
            for m in re.finditer(r'^//! plemma: (C\d\d)', txt, re.M):
                tags.add(m.group(1))
            missing = sorted(tags - set(u.header['properties']))
            if missing:
                raise U.Maintenance('%s: clauses are tagged %s but the header lists only %s' % (u.name, ','.join(missing), ' '.join(u.header['properties'])))
    return res


class UnitOutcome:
    def __init__(self, name):
        self.name = name
        self.status = 'ok'          # ok | violation | undecided
        self.failed = []            # genuine failed obligations (dicts)
        self.reasons = []           # maintenance reasons
        self.res = None
        self.asm = None
        self.vac_ok = 0
        self.mutants = []           # (name, rejected?)
        self.trusted_hits = []


def describe_diag(asm, d):
    """Map a Verus diagnostic back to /repo and to the unit's clauses."""
    info = {'message': d['message'], 'where': [], 'clause': None, 'function': None, 'rendered': d['rendered']}
    for s in d['spans']:
        o = asm.origin(s['line_start'])
        info['where'].append({'out_line': s['line_start'], 'origin': '%s:%s' % o if o else None, 'label': s['label'], 'text': s['text']})
        if s.get('primary') and info['function'] is None:
            info['function'] = asm.fn_at(s['line_start'])
        if o and o[0] == 'unit':
            for c in asm.info['clauses']:
                a, b = c['unit_lines']
                if a <= o[1] <= b and (info['clause'] is None or c['kind'] in ('ensures', 'requires')):
                    info['clause'] = c
    if info['function'] is None and d['spans']:
        info['function'] = asm.fn_at(d['spans'][0]['line_start'])
    return info


def in_ranges(line, ranges):
    return any(a <= line <= b for (a, b) in ranges)


def run_unit(u, tier='quick', mutant=None, tag=''):
    out = UnitOutcome(u.name)
    try:
        asm = u.assemble(mutant=mutant)
    except Maintenance as e:
        out.status = 'undecided'
        out.reasons.append(str(e))
        return out
    except Exception as e:  # lexer trouble etc.
        out.status = 'undecided'
        out.reasons.append('extraction failed: %r' % (e,))
        return out
    out.asm = asm
    # trusted scan
    declared = ' '.join(u.header.get('trusted', []))
    for ln, line in enumerate(asm.text.split('\n'), 1):
        code = line.split('//')[0]
        for pat in TRUSTED_PATTERNS:
            if pat in code:
                out.trusted_hits.append((ln, pat, code.strip()[:160]))
    if out.trusted_hits and not declared:
        out.status = 'undecided'
        out.reasons.append('unit uses %d trusted construct(s) but declares no //! trusted: line' % len(out.trusted_hits))
        return out
    res = V.run_verus(u.name, asm.text, tag=tag)
    if any(t.startswith('rlimit') for t in res.tool_errors):
        # a resource limit is not a verdict: retry once with a 12x larger budget before giving up as undecided
        res2 = V.run_verus(u.name, asm.text, rlimit=120, tag=tag)
        res2.wall_s += res.wall_s
        res = res2
    out.res = res
    vac_ranges = {'%s@%d' % (v['probe'], v['out_lines'][0]): v['out_lines'] for v in asm.info['vac']}
    vac_failed = set()
    for d in res.diags:
        lines = [s['line_start'] for s in d['spans']]
        hit = None
        for nm, (a, b) in vac_ranges.items():
            if any(a <= l <= b for l in lines):
                hit = nm
        if hit:
            vac_failed.add(hit)
            continue
        out.failed.append(describe_diag(asm, d))
    for nm in vac_ranges:
        if nm not in vac_failed and not res.tool_errors:
            out.reasons.append('vacuity probe %s was NOT rejected: the precondition of that function is contradictory' % nm)
    out.vac_ok = len(vac_failed)
    if out.failed:
        # a genuinely failed obligation is reported even if another query of the unit hit a tool limit
        out.status = 'violation'
        out.reasons.extend(res.tool_errors)
    elif res.tool_errors:
        out.status = 'undecided'
        out.reasons.extend(res.tool_errors)
    elif out.reasons:
        out.status = 'undecided'
    else:
        # all non-vac functions must have succeeded
        bad = [f for f in res.functions if not f['success'] and not f['function'].split('::')[-1].startswith('vac__')]
        if bad:
            out.status = 'undecided'
            out.reasons.append('functions reported unsuccessful without diagnostics: %s' % bad)
    return out


def run_mutants(u, jobs=8):
    """Thorough tier: every canary mutant must be rejected."""
    asm = u.assemble()
    results = []
    ms = asm.info['mutants']

    def one(m):
        o = run_unit(u, mutant=(m[0], m[1]), tag='.mut.' + m[1])
        return (m[1], m[2], o.status, [f['message'] for f in o.failed][:3], o.reasons[:2])

    with cf.ThreadPoolExecutor(max_workers=jobs) as ex:
        for r in ex.map(one, ms):
            results.append(r)
    return results
