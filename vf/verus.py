"""Run Verus on an assembled unit and classify what comes back."""
import json
import os
import re
import subprocess
import time

BUILD = os.environ.get('VERIF_BUILD', '/verif/.build')

# messages Verus uses for a *failed proof obligation* (anything else at level error is a
# compile / tool problem => maintenance, exit 2)
OBLIGATION_MSGS = (
    'postcondition not satisfied', 'precondition not satisfied', 'assertion failed',
    'invariant not satisfied at end of loop body', 'invariant not satisfied before loop',
    'possible arithmetic underflow/overflow', 'possible division by zero', 'unreachable',
    'possible bit shift underflow/overflow', 'decreases not satisfied', 'could not prove termination',
    'loop invariant not satisfied', 'failed assertion', 'possible truncation', 'recommendation not met',
    'arithmetic underflow/overflow', 'index out of bounds', 'panic', 'assert failed', 'possible division by zero',
    'termination', 'invariant not satisfied', 'call to non-terminating', 'constructed value may fail to meet its declared type invariant',
    'cannot show invariant holds', 'unable to prove', 'fails to satisfy', 'possible overflow', 'possible underflow', 'unreachable code is reachable',
)
RLIMIT_MSGS = ('Resource limit (rlimit) exceeded', 'resource limit', 'rlimit')


class VerusResult:
    def __init__(self):
        self.ok = False
        self.verified = 0
        self.errors = 0
        self.functions = []      # [{function, mode, ms, success}]
        self.diags = []          # parsed error diagnostics
        self.tool_errors = []    # rustc / vir / rlimit problems => maintenance
        self.wall_s = 0.0
        self.smt_ms = 0
        self.cmd = ''
        self.raw_stderr = ''
        self.version = ''


def run_verus(unit_name, text, rlimit=None, threads=None, tag=''):
    d = os.path.join(BUILD, unit_name + tag)
    os.makedirs(d, exist_ok=True)
    src = os.path.join(d, 'unit.rs')
    with open(src, 'w') as f:
        f.write(text)
    cmd = ['verus', src, '--output-json', '--time', '--triggers-mode', 'silent', '--multiple-errors', '4']
    if rlimit:
        cmd += ['--rlimit', str(rlimit)]
    if threads:
        cmd += ['--num-threads', str(threads)]
    cmd += ['--', '--error-format=json']
    t0 = time.time()
    env = dict(os.environ)
    pr = subprocess.run(cmd, cwd=d, capture_output=True, text=True, env=env)
    res = VerusResult()
    res.wall_s = time.time() - t0
    res.cmd = ' '.join(cmd)
    res.raw_stderr = pr.stderr
    try:
        js = json.loads(pr.stdout)
    except Exception:
        js = None
    if js is None:
        res.tool_errors.append('verus produced no JSON (exit %d): %s' % (pr.returncode, pr.stderr[-2000:]))
    else:
        vr = js.get('verification-results', {})
        res.verified = vr.get('verified', 0)
        res.errors = vr.get('errors', 0)
        res.ok = bool(vr.get('success'))
        res.version = js.get('verus', {}).get('version', '')
        if vr.get('encountered-vir-error'):
            res.tool_errors.append('verus reported a VIR (front-end) error')
        try:
            for m in js['times-ms']['smt']['smt-run-module-times']:
                for fb in m.get('function-breakdown', []):
                    res.functions.append({'function': fb['function'].split('::', 1)[-1], 'mode': fb.get('mode:', fb.get('mode', '')),
                                          'ms': fb.get('time', 0), 'rlimit': fb.get('rlimit', 0), 'success': fb.get('success')})
            res.smt_ms = js['times-ms']['smt']['total']
        except Exception:
            pass
    for line in pr.stderr.split('\n'):
        line = line.strip()
        if not line.startswith('{'):
            continue
        try:
            dj = json.loads(line)
        except Exception:
            continue
        if dj.get('$message_type') != 'diagnostic':
            continue
        lvl = dj.get('level')
        msg = dj.get('message', '')
        if lvl not in ('error', 'error: internal compiler error'):
            continue
        if msg.startswith('aborting due to'):
            continue
        def in_unit(sp):
            # a span inside a macro expansion (e.g. debug_assert!'s precondition lives in vstd): follow the expansion chain back
            # to the call site in the unit file
            n = 0
            while sp is not None and not str(sp.get('file_name', '')).endswith('unit.rs') and n < 8:
                sp = (sp.get('expansion') or {}).get('span')
                n += 1
            return sp
        spans = []
        for s0 in dj.get('spans', []):
            s = in_unit(s0)
            if s is None:
                continue
            spans.append({'line_start': s['line_start'], 'line_end': s['line_end'], 'primary': s0.get('is_primary'), 'label': s0.get('label'),
                          'text': ' '.join(x['text'].strip() for x in s.get('text', []))[:300]})
        kind = 'tool'
        if dj.get('code') is None and any(msg.startswith(m) or m in msg for m in OBLIGATION_MSGS):
            kind = 'obligation'
        if any(m in msg for m in RLIMIT_MSGS):
            kind = 'rlimit'
        ent = {'message': msg, 'kind': kind, 'spans': spans, 'rendered': dj.get('rendered', '')[:3000], 'code': (dj.get('code') or {}).get('code')}
        if kind == 'obligation':
            res.diags.append(ent)
        else:
            res.tool_errors.append('%s: %s\n%s' % (kind, msg, dj.get('rendered', '')[:1500]))
    if js is not None and not res.ok and not res.diags and not res.tool_errors:
        res.tool_errors.append('verus failed without diagnostics: %s' % pr.stderr[-1500:])
    return res
