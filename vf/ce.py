"""Counterexample search and native replay (DESIGN §2.5)."""
import json


def search(prop, unit, fail, seed):
    return None


def replay_file(path):
    doc = json.load(open(path))
    print(json.dumps({k: doc.get(k) for k in ('property', 'unit', 'function', 'obligation', 'message', 'inputs', 'replay_cmd')}, indent=1))
    print(doc.get('verifier_output') or '')
    return 0
