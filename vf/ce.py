"""Counterexample search and native replay (DESIGN §2.5).

Verus gives no counterexample.  When one of its obligations fails, the executable mirror of that function's
contract (hooks/*.rs, compiled into the real crate under cfg(ldk_verif)) is searched natively with
boundary-biased random inputs (deterministic from VERIF_SEED); a hit is replayed and reported as the failing
input.  No hit => the violation is still reported, marked no-failing-input-found.
"""
import json
import os
import subprocess

from . import kani as K

# (unit, function) -> [(module, contract, types)]
SEARCH = {
    ('u01', 'get_next_commitment_stats'): [('tx_builder', 'stats_conservation_norm', 'bool,bool,u64,u64,u64,bool,u64,bool,u64,bool,u8,u8,u32,bool,u64,u8')],
    ('u01', 'checked_sub_from_funder'): [('tx_builder', 'checked_sub_from_funder', 'bool,u64,u64,u64')],
    ('u01', 'has_output'): [('tx_builder', 'has_output', 'bool,u64,u64,u32,u16,u64,u8')],
    ('u01', 'commit_tx_fee_sat'): [('chan_utils', 'commit_tx_fee_sat', 'u32,u32,u8')],
    ('u01e', 'commit_tx_fee_sat'): [('chan_utils', 'commit_tx_fee_sat', 'u32,u32,u8')],
    ('u16', 'compute_fees'): [('router', 'compute_fees', 'u64,u32,u32')],
    ('u07', 'feerate_bump'): [('package', 'feerate_bump_norm', 'u64,u64,u64,u64,u8,u32')],
    ('u07', 'compute_fee_from_spent_amounts'): [('package', 'feerate_bump_norm', 'u64,u64,u64,u64,u8,u32')],
}
WINDOW = ('tx_builder', 'send_window_norm', 'bool,u64,u64,u64,bool,u64,bool,u8,u32,u64,u64,u64,u64,u64,u16,u8')
for f in ('get_available_balances', 'adjust_capacity_for_holder_reserved_fee', 'adjust_capacity_for_counterparty_reserved_fee',
          'adjust_min_max_htlc_for_dust_exposure', 'adjust_boundaries_if_max_dust_htlc_produces_no_output',
          'adjust_min_max_htlc_if_max_dust_htlc_produces_no_output', 'get_next_commitment_stats', 'has_output', 'is_dust', 'commit_tx_fee_sat',
          'saturating_sub_from_funder', 'checked_sub_from_funder', 'total_anchors_sat', 'second_stage_tx_fees_sat', 'get_dust_exposure_stats',
          'commit_plus_htlc_tx_fees_msat', 'get_dust_buffer_feerate'):
    SEARCH.setdefault(('u01', f), []).append(WINDOW)

N_CASES = int(os.environ.get('VERIF_CE_CASES', '400000'))


def run_search(module, contract, types, seed, n=N_CASES):
    binp, err = K.build_replay()
    if not binp:
        return {'built': False, 'error': err}
    pr = subprocess.run([binp, '--search', module, contract, types, str(seed), str(n)], capture_output=True, text=True)
    out = pr.stdout.strip()
    res = {'built': True, 'cmd': ' '.join([binp, '--search', module, contract, types, str(seed), str(n)]), 'stdout': out}
    if out.startswith('FOUND'):
        parts = out.split()
        res['found'] = [int(x) for x in parts[2:]]
        res['verdict'] = parts[1]
    return res


def search(prop, unit, fail, seed):
    fn = fail.get('function')
    cands = SEARCH.get((unit, fn), [])
    tried = []
    for (module, contract, types) in cands:
        r = run_search(module, contract, types, seed)
        tried.append({'contract': module + '::' + contract, 'result': (r.get('stdout') or r.get('error') or '')[:200]})
        if r.get('found') is not None:
            binp = r['cmd'].split()[0]
            replay_cmd = ' '.join([binp, module, contract] + [str(x) for x in r['found']])
            pr = subprocess.run([binp, module, contract] + [str(x) for x in r['found']], capture_output=True, text=True)
            return {'inputs': {'module': module, 'contract': contract, 'types': types.split(','), 'args': r['found'], 'found_by': 'native boundary-biased random search, seed %d' % seed},
                    'replay': {'cmd': replay_cmd, 'stdout': pr.stdout.strip(), 'rc': pr.returncode}, 'cmd': replay_cmd, 'tried': tried}
    if tried:
        return {'inputs': None, 'replay': None, 'cmd': None, 'tried': tried}
    return None


def replay_file(path):
    doc = json.load(open(path))
    print(json.dumps({k: doc.get(k) for k in ('property', 'unit', 'function', 'obligation', 'message', 'inputs', 'replay_cmd')}, indent=1))
    print(doc.get('verifier_output') or '')
    inp = doc.get('inputs')
    if inp and inp.get('args') is not None:
        nat = K.native_replay(inp['module'], inp['contract'], inp['args'])
        print('native replay against the current /repo tree:', json.dumps(nat))
        if nat.get('built') and 'Violated' in (nat.get('stdout') or ''):
            print('VIOLATION property=%s replay=%s' % (doc.get('property'), path))
            return 1
        return 0
    print('no failing input recorded for this obligation; re-run ./check %s to re-verify it' % doc.get('property'))
    return 0
