"""Kani route: harnesses in /verif/hooks/*.rs, compiled in place into the real crates under cfg(kani).

A harness feeds kani::any() into a `contract_*` function (precondition -> Vacuous, else call the real
function and check the postcondition) and asserts the outcome is not Violated.  Loop-free bodies and loops
bounded by a fixed array size (unwinding assertions on) are complete proofs; harnesses flagged `bounded`
are stand-ins and are never counted as proved.
"""
import json
import os
import re
import subprocess
import time

VERIF = os.path.dirname(os.path.dirname(os.path.abspath(__file__)))
REPO = os.environ.get('VERIF_REPO', '/repo')
BUILD = os.environ.get('VERIF_BUILD', '/verif/.build')

SER = 'util::ser::verif_contracts::harnesses::'
MSGS = 'ln::msgs::verif_contracts::harnesses::'
WIRE = 'ln::wire::verif_contracts::harnesses::'
ONION = 'ln::onion_utils::verif_contracts::harnesses::'
INB = 'ln::inbound_payment::verif_contracts::harnesses::'
INV_SER = 'ser::verif_contracts::harnesses::'
INV_DE = 'de::verif_contracts::harnesses::'
INV_LIB = 'verif_contracts::harnesses::'


def H(prefix, name, module, contract, types, clause, functions, bounded=None, thorough=False):
    return {'id': prefix + name, 'short': name, 'module': module, 'contract': contract, 'types': types, 'clause': clause,
            'functions': functions, 'bounded': bounded, 'thorough_only': thorough}


RT = 'read(write(x)) == x, consuming exactly the written bytes, for every value'
CANON = 'whatever a buffer decodes to re-encodes to exactly the consumed prefix (non-minimal encodings rejected); nothing beyond the buffer is read'

SER_PRIMS = [
    H(SER, 'h_rt_u8', 'ser', 'rt_u8', ['u8'], RT, ['<u8 as Writeable>::write', '<u8 as Readable>::read']),
    H(SER, 'h_rt_u16', 'ser', 'rt_u16', ['u16'], RT, ['<u16 as Writeable>::write', '<u16 as Readable>::read']),
    H(SER, 'h_rt_u32', 'ser', 'rt_u32', ['u32'], RT, ['<u32 as Writeable>::write', '<u32 as Readable>::read']),
    H(SER, 'h_rt_u64', 'ser', 'rt_u64', ['u64'], RT, ['<u64 as Writeable>::write', '<u64 as Readable>::read']),
    H(SER, 'h_rt_i64', 'ser', 'rt_i64', ['i64'], RT, ['<i64 as Writeable>::write', '<i64 as Readable>::read']),
    H(SER, 'h_rt_bool', 'ser', 'rt_bool', ['bool'], RT, ['<bool as Writeable>::write', '<bool as Readable>::read']),
    H(SER, 'h_rt_bigsize', 'ser', 'rt_bigsize', ['u64'], RT, ['<BigSize as Writeable>::write', '<BigSize as Readable>::read']),
    H(SER, 'h_rt_collection_length', 'ser', 'rt_collection_length', ['u64'], RT, ['<CollectionLength as Writeable>::write', '<CollectionLength as Readable>::read']),
    H(SER, 'h_rt_hzbd_u64', 'ser', 'rt_hzbd_u64', ['u64'], RT, ['<HighZeroBytesDroppedBigSize<u64> as Writeable>::write', '<HighZeroBytesDroppedBigSize<u64> as Readable>::read']),
    H(SER, 'h_rt_hzbd_u32', 'ser', 'rt_hzbd_u32', ['u32'], RT, ['<HighZeroBytesDroppedBigSize<u32> as Writeable>::write', '<HighZeroBytesDroppedBigSize<u32> as Readable>::read']),
    H(SER, 'h_rt_u48', 'ser', 'rt_u48', ['u64'], RT + ' (x < 2^48)', ['<U48 as Writeable>::write', '<U48 as Readable>::read']),
]
SER_CANON = [
    H(SER, 'h_canon_bigsize', 'ser', 'canon_bigsize', ['[u8;9]'], CANON, ['<BigSize as Readable>::read']),
    H(SER, 'h_canon_collection_length', 'ser', 'canon_collection_length', ['[u8;10]'], CANON, ['<CollectionLength as Readable>::read']),
    H(SER, 'h_canon_bool', 'ser', 'canon_bool', ['[u8;1]'], 'bool rejects every byte above 1', ['<bool as Readable>::read']),
    H(SER, 'h_canon_hzbd_u64', 'ser', 'canon_hzbd_u64', ['[u8;8]', 'u8'], 'accepted iff no leading zero byte, and re-encodes to itself', ['<HighZeroBytesDroppedBigSize<u64> as Readable>::read']),
    H(SER, 'h_fixed_length_reader', 'ser', 'fixed_length_reader', ['u8', 'u8', 'u8'],
      'FixedLengthReader never hands out more than total_bytes and the inner reader advances by exactly what was handed out', ['FixedLengthReader::read', 'FixedLengthReader::bytes_remain']),
]
MSG_RT = [
    H(MSGS, 'h_rt_update_fee', 'msgs', 'rt_update_fee', ['[u8;32]', 'u32'], 'UpdateFee survives encode -> decode unchanged (real impl_writeable_msg! codec)', ['UpdateFee::write', 'UpdateFee::read_from_fixed_length_buffer']),
    H(MSGS, 'h_rt_update_fail_malformed', 'msgs', 'rt_update_fail_malformed', ['[u8;32]', 'u64', '[u8;32]', 'u16'], 'UpdateFailMalformedHTLC survives encode -> decode unchanged', ['UpdateFailMalformedHTLC::write', 'UpdateFailMalformedHTLC::read_from_fixed_length_buffer']),
    H(MSGS, 'h_rt_stfu', 'msgs', 'rt_stfu', ['[u8;32]', 'bool'], 'Stfu survives encode -> decode unchanged', ['Stfu::write', 'Stfu::read_from_fixed_length_buffer']),
    H(MSGS, 'h_rt_tx_remove_input', 'msgs', 'rt_tx_remove_input', ['[u8;32]', 'u64'], 'TxRemoveInput survives encode -> decode unchanged', ['TxRemoveInput::write', 'TxRemoveInput::read_from_fixed_length_buffer']),
    H(MSGS, 'h_rt_tx_complete', 'msgs', 'rt_tx_complete', ['[u8;32]'], 'TxComplete survives encode -> decode unchanged', ['TxComplete::write', 'TxComplete::read_from_fixed_length_buffer']),
    H(MSGS, 'h_rt_gossip_timestamp_filter', 'msgs', 'rt_gossip_timestamp_filter', ['[u8;32]', 'u32', 'u32'], 'GossipTimestampFilter survives encode -> decode unchanged', ['GossipTimestampFilter::write', 'GossipTimestampFilter::read_from_fixed_length_buffer']),
    H(MSGS, 'h_canon_update_fee', 'msgs', 'canon_update_fee', ['[u8;36]'], 'every 36-byte buffer decodes as UpdateFee and re-encodes to itself (decoding total on the fixed part, canonical)', ['UpdateFee::read_from_fixed_length_buffer']),
    H(WIRE, 'h_is_even_unknown', 'wire', 'is_even_unknown', ['u16'], 'a message type must be understood ("even") exactly when its low bit is clear', ['wire::Message::is_even', 'wire::Message::type_id']),
]

ONION_H = [
    H(ONION, 'h_shift_right', 'onion_utils', 'shift_right', ['[u8;80]', '[u8;840]', 'u8', 'u8', 'u8', 'u8'],
      'AttributionData::shift_right moves hold time i to i+1 and every HMAC to its BOLT position one hop further (checked at a symbolic position = all positions)', ['AttributionData::shift_right']),
    H(ONION, 'h_shift_left_inverse', 'onion_utils', 'shift_left_inverse', ['[u8;80]', '[u8;840]', 'u8', 'u8', 'u8', 'u8'],
      'shift_left undoes shift_right on every hold time and HMAC that survives', ['AttributionData::shift_left', 'AttributionData::shift_right']),
]
INB_H = [
    H(INB, 'h_info_bytes', 'inbound_payment', 'info_bytes', ['u8', 'bool', 'u64', 'u32', 'u64', 'bool', 'u16'],
      'construct_info_bytes == Ok(b) ==> decoding b with the masks verify() uses yields (method, min.unwrap_or(0), now+delta+7200, cltv); Err <=> min > MAX_VALUE_MSAT or the expiry does not fit 48 bits',
      ['inbound_payment::construct_info_bytes', 'inbound_payment::calculate_absolute_expiry', 'inbound_payment::min_final_cltv_expiry_delta_from_info', 'inbound_payment::Method::from_bits']),
]
INV_H = [
    H(INV_DE, 'h_int_roundtrip', 'invoice_de', 'int_roundtrip', ['u64'], 'parse_u64_be(encode_int_be_base32(x)) == Some(x) with exactly encoded_int_be_base32_size(x) digits and no leading zero digit, for every u64',
      ['ser::encode_int_be_base32', 'ser::encoded_int_be_base32_size', 'de::parse_u64_be']),
    H(INV_DE, 'h_u16_parse', 'invoice_de', 'u16_parse', ['u8', 'u8', 'u8'], 'three base-32 digits always parse as the big-endian u16 they denote', ['de::parse_u16_be']),
]

GROUPS = {
    'C12': [{'name': 'ser-primitives', 'crate': 'lightning', 'harnesses': SER_PRIMS, 'timeout': 400}],
    'C13': [{'name': 'ser-canonical+wire', 'crate': 'lightning', 'harnesses': SER_CANON + MSG_RT, 'timeout': 400}],
    'C14': [{'name': 'attribution-shift', 'crate': 'lightning', 'harnesses': ONION_H, 'timeout': 600}],
    'C04': [{'name': 'payment-metadata', 'crate': 'lightning', 'harnesses': INB_H, 'timeout': 300}],
    'C18': [{'name': 'invoice-numeric-fields', 'crate': 'lightning-invoice', 'harnesses': INV_H, 'timeout': 600}],
}

SIZES = {'u8': 1, 'u16': 2, 'u32': 4, 'u64': 8, 'i64': 8, 'bool': 1, 'u128': 16, 'usize': 8}


def groups_for(prop, tier):
    res = []
    for g in GROUPS.get(prop, []):
        hs = [h for h in g['harnesses'] if tier == 'thorough' or not h.get('thorough_only')]
        if hs:
            g2 = dict(g)
            g2['harnesses'] = hs
            res.append(g2)
    return res


def _kani_cmd(crate, filters, timeout, jobs=16, playback=False):
    cmd = ['cargo', 'kani', '--target-dir', os.path.join(BUILD, 'kani-' + crate), '-Z', 'unstable-options', '--harness-timeout', str(timeout)]
    for f in filters:
        cmd += ['--harness', f]
    if playback:
        cmd += ['-Z', 'concrete-playback', '--concrete-playback=print']
    else:
        cmd += ['-j', str(jobs), '--output-format', 'terse']
    return cmd


def _run(cmd, crate, wall_limit):
    env = dict(os.environ)
    env['CARGO_NET_OFFLINE'] = 'true'
    t0 = time.time()
    try:
        pr = subprocess.run(cmd, cwd=os.path.join(REPO, crate), capture_output=True, text=True, env=env, timeout=wall_limit)
        out = pr.stdout + '\n' + pr.stderr
        rc = pr.returncode
    except subprocess.TimeoutExpired as e:
        out = ((e.stdout or b'').decode() if isinstance(e.stdout, bytes) else (e.stdout or '')) + '\nWALL-CLOCK LIMIT'
        rc = 124
    return rc, out, time.time() - t0


def decode_playback(out, types):
    """Concrete playback prints one vec![..] of little-endian bytes per kani::any() primitive."""
    vecs = re.findall(r'vec!\[([0-9,\s]*)\]', out)
    flat = []
    for v in vecs:
        flat.extend(int(x) for x in v.replace(' ', '').split(',') if x != '')
    args = []
    pos = 0
    try:
        for t in types:
            m = re.match(r'\[u8;(\d+)\]', t)
            if m:
                n = int(m.group(1))
                args.extend(flat[pos:pos + n])
                pos += n
            else:
                n = SIZES[t]
                val = int.from_bytes(bytes(flat[pos:pos + n]), 'little')
                args.append(val)
                pos += n
    except Exception:
        return None
    if pos > len(flat) or not flat:
        return None
    return args


def build_replay():
    d = os.path.join(VERIF, 'replay')
    env = dict(os.environ)
    env['CARGO_NET_OFFLINE'] = 'true'
    env['RUSTFLAGS'] = (env.get('RUSTFLAGS', '') + ' --cfg ldk_verif').strip()
    pr = subprocess.run(['cargo', 'build', '--offline', '--release', '--target-dir', os.path.join(BUILD, 'replay')], cwd=d, capture_output=True, text=True, env=env)
    binp = os.path.join(BUILD, 'replay', 'release', 'verif-replay')
    if pr.returncode != 0 or not os.path.exists(binp):
        return None, pr.stderr[-2000:]
    return binp, ''


def native_replay(module, contract, args):
    binp, err = build_replay()
    if not binp:
        return {'built': False, 'error': err}
    pr = subprocess.run([binp, module, contract] + [str(a) for a in args], capture_output=True, text=True)
    return {'built': True, 'cmd': ' '.join([binp, module, contract] + [str(a) for a in args]), 'stdout': pr.stdout.strip(), 'rc': pr.returncode}


def run_groups(prop, groups, tier):
    res = {'harnesses': [], 'violations': [], 'undecided': [], 'trusted': ['CBMC 6.11 / kissat via Kani 0.68 and its rustc front end', 'hooks/*.rs contract functions (the postcondition checks themselves)'],
           'assumptions': ['Kani checks partial correctness (no termination proof); loops are unwound up to the fixed array sizes with unwinding assertions on'], 'cmds': []}
    for g in groups:
        hs = g['harnesses']
        by_id = {h['id']: h for h in hs}
        cmd = _kani_cmd(g['crate'], [h['id'] for h in hs], g['timeout'])
        res['cmds'].append('cd %s && CARGO_NET_OFFLINE=true %s' % (os.path.join(REPO, g['crate']), ' '.join(cmd)))
        rc, out, wall = _run(cmd, g['crate'], g['timeout'] * 3 + 600)
        m = re.search(r'Complete - (\d+) successfully verified harnesses, (\d+) failures, (\d+) total', out)
        if not m:
            res['undecided'].append('kani group %s produced no summary (rc=%d): %s' % (g['name'], rc, out[-1500:]))
            continue
        ok_n, fail_n, total_n = int(m.group(1)), int(m.group(2)), int(m.group(3))
        if total_n != len(hs):
            res['undecided'].append('kani group %s: expected %d harnesses, kani ran %d (a harness filter no longer matches)' % (g['name'], len(hs), total_n))
        failed_names = re.findall(r'Verification failed for - (\S+)', out)
        checks = [(int(a), int(b)) for (a, b) in re.findall(r'\*\* (\d+) of (\d+) failed', out)]
        covers = re.findall(r'\*\* (\d+) of (\d+) cover properties satisfied', out)
        unsat_cover = [c for c in covers if c[0] != c[1]]
        if unsat_cover:
            res['undecided'].append('kani group %s: a cover property (non-vacuity) was not satisfied' % g['name'])
        total_checks = sum(b for (_, b) in checks)
        failed_ids = set()
        for fn in failed_names:
            for hid in by_id:
                if fn.endswith(hid) or hid.endswith(fn):
                    failed_ids.add(hid)
        per = (total_checks // max(1, len(checks))) if checks else 0
        # per-thread mapping: "Thread N: Checking harness X..." then "Thread N:" + result block
        thread_h = {}
        per_h = {}
        cur = None
        for line in out.split('\n'):
            m1 = re.match(r'Thread (\d+): Checking harness (\S+?)\.\.\.', line)
            if m1:
                thread_h[m1.group(1)] = m1.group(2)
                continue
            m2 = re.match(r'Thread (\d+):\s*$', line)
            if m2:
                cur = thread_h.get(m2.group(1))
                continue
            m3 = re.search(r'\*\* (\d+) of (\d+) failed', line)
            if m3 and cur:
                per_h.setdefault(cur, {})['checks'] = int(m3.group(2))
                per_h[cur]['failed'] = int(m3.group(1))
            m4 = re.search(r'Verification Time: ([0-9.]+)s', line)
            if m4 and cur:
                per_h.setdefault(cur, {})['time'] = float(m4.group(1))
        for h in hs:
            info = next((v for k, v in per_h.items() if k.endswith(h['id'])), {})
            ent = {'name': h['short'], 'functions': h['functions'], 'clause': h['clause'], 'bounded': bool(h['bounded']), 'bound': h['bounded'],
                   'status': 'failed' if h['id'] in failed_ids else 'ok', 'checks': info.get('checks', per), 'failed': info.get('failed', 0),
                   'wall_s': round(info.get('time', wall), 2)}
            res['harnesses'].append(ent)
        # every failed harness is re-run alone, with concrete playback, to tell a time-out from a counterexample
        for hid in sorted(failed_ids):
            h = by_id[hid]
            cmd2 = _kani_cmd(g['crate'], [hid], g['timeout'], playback=True) + ['--exact'] if False else _kani_cmd(g['crate'], [hid], g['timeout'], playback=True)
            rc2, out2, wall2 = _run(cmd2, g['crate'], g['timeout'] + 900)
            if 'CBMC timed out' in out2 or 'WALL-CLOCK LIMIT' in out2 or 'VERIFICATION:- FAILED' not in out2:
                res['undecided'].append('kani harness %s: time-out / no verdict when re-run alone (undecided, not a violation)' % h['short'])
                for e in res['harnesses']:
                    if e['name'] == h['short']:
                        e['status'] = 'undecided'
                continue
            failed_checks = re.findall(r'Failed Checks: (.*)', out2)
            if any('unwinding assertion' in c for c in failed_checks):
                res['undecided'].append('kani harness %s: unwinding bound too small for the current code (harness needs maintenance): %s' % (h['short'], '; '.join(failed_checks)[:300]))
                for e in res['harnesses']:
                    if e['name'] == h['short']:
                        e['status'] = 'undecided'
                continue
            args = decode_playback(out2, h['types'])
            nat = None
            if args is not None:
                nat = native_replay(h['module'], h['contract'], args)
            fail = {'unit': 'kani:' + g['name'], 'function': h['short'], 'message': 'kani: assertion failed: ' + '; '.join(failed_checks)[:300],
                    'clause': {'kind': 'harness', 'tag': 'P %s %s' % (prop, h['short']), 'text': h['clause']},
                    'rendered': out2[-3000:], 'where': [{'origin': 'hooks/%s.rs' % h['module'], 'text': h['short'], 'label': None, 'out_line': 0}]}
            if args is not None:
                fail['ce'] = {'inputs': {'contract': h['contract'], 'module': h['module'], 'types': h['types'], 'args': args},
                              'replay': nat, 'cmd': (nat or {}).get('cmd') or './check %s' % prop}
                if nat and nat.get('built') and 'Violated' not in (nat.get('stdout') or ''):
                    # the counterexample does not reproduce natively: report, but say so
                    fail['ce']['note'] = 'native replay did not return Violated'
            if h['bounded']:
                fail['message'] += ' [bounded harness: %s]' % h['bounded']
            res['violations'].append(fail)
    return res
