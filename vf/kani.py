"""Kani route (in place on the real crates). Filled in by hooks/ (see DESIGN §2.4)."""
GROUPS = {}


def groups_for(prop, tier):
    return [g for g in GROUPS.get(prop, []) if tier == 'thorough' or not g.get('thorough_only')]


def run_groups(prop, groups, tier):
    return {'harnesses': [], 'violations': [], 'undecided': [], 'trusted': [], 'assumptions': [], 'cmds': []}
