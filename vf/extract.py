"""Item location, extraction, rewrite rules and contract splicing (DESIGN §2.2, §2.3).

Everything here is syntactic and mechanical.  Any situation the rules do not cover raises
Maintenance (exit 2: undecided, proof needs maintenance) -- never a violation.
"""
import hashlib
import os
import re

from .rustlex import Tok, lex, match_close, render, OPEN, CLOSE, LexError


class Maintenance(Exception):
    """The machinery cannot decide (lost anchor, construct outside the rules, ...)."""


# --------------------------------------------------------------------------- item location

ITEM_KW = ('fn', 'const', 'static', 'struct', 'enum', 'type', 'trait', 'mod', 'impl', 'macro_rules', 'union')
QUALS = ('pub', 'async', 'unsafe', 'const', 'extern', 'default')


def _top_level_items(toks, lo, hi):
    """Yield (start, kw_index, end) for items among toks[lo:hi] at depth 0. `start` includes attributes
    and qualifiers, `end` is exclusive."""
    i = lo
    while i < hi:
        start = i
        # attributes
        while i < hi and toks[i].text == '#':
            j = i + 1
            if j < hi and toks[j].text == '!':
                j += 1
            if j < hi and toks[j].text == '[':
                i = match_close(toks, j) + 1
            else:
                break
        # qualifiers
        while i < hi and toks[i].kind == 'ident' and toks[i].text in QUALS:
            if toks[i].text == 'const' and i + 1 < hi and toks[i + 1].text not in ('fn', 'unsafe', 'async', 'extern'):
                break  # a const item, not a qualifier
            i += 1
            if toks[i - 1].text == 'pub' and i < hi and toks[i].text == '(':
                i = match_close(toks, i) + 1
            if toks[i - 1].kind == 'str':
                pass
            if i < hi and toks[i].kind == 'str':  # extern "C"
                i += 1
        if i >= hi:
            break
        kw = i
        t = toks[i]
        if t.kind == 'ident' and t.text in ITEM_KW or (t.kind == 'ident' and t.text == 'use'):
            # find end: first `;` or balanced `{...}` at depth 0
            j = i + 1
            while j < hi:
                tt = toks[j]
                if tt.kind == 'punct' and tt.text in OPEN:
                    k = match_close(toks, j)
                    if tt.text == '{':
                        j = k + 1
                        # tuple struct `struct X(..);` handled by ';' branch; here block ends item
                        break
                    j = k + 1
                    continue
                if tt.kind == 'punct' and tt.text == ';':
                    j += 1
                    break
                j += 1
            yield (start, kw, j)
            i = j
        else:
            # something else (macro invocation etc.): skip one token tree
            if t.kind == 'punct' and t.text in OPEN:
                i = match_close(toks, i) + 1
            else:
                i += 1


def _header_end(toks, kw, end):
    """index of the body `{` of an item starting at kw (or None)."""
    j = kw + 1
    while j < end:
        tt = toks[j]
        if tt.kind == 'punct' and tt.text == '{':
            return j
        if tt.kind == 'punct' and tt.text in OPEN:
            j = match_close(toks, j) + 1
            continue
        if tt.kind == 'punct' and tt.text == ';':
            return None
        j += 1
    return None


def _is_subsequence(needle, hay):
    it = iter(hay)
    return all(any(x == y for y in it) for x in needle)


def locate(toks, path):
    """path: 'impl Foo :: fn bar' / 'fn foo' / 'const X' / 'mod m :: fn f' / 'impl Tr for Foo :: fn g'.
    Returns (start, kw, end).  Ambiguity or absence -> Maintenance."""
    segs = [s.strip() for s in path.split(' :: ')]
    lo, hi = 0, len(toks)
    found = None
    for si, seg in enumerate(segs):
        want, _ = lex(seg)
        want = [t.text for t in want]
        kind = want[0]
        cands = []
        exact = []   # impl headers spelled exactly as requested win over headers that merely contain the requested tokens
        for (start, kw, end) in _top_level_items(toks, lo, hi):
            if toks[kw].text != kind:
                continue
            if kind == 'impl':
                he = _header_end(toks, kw, end)
                if he is None:
                    continue
                header = [t.text for t in toks[kw + 1:he]]
                if _is_subsequence(want[1:], header):
                    # an inherent impl is preferred when the request does not mention `for`
                    if 'for' in header and 'for' not in want:
                        # `impl<T> Trait for X`: only accept if X side contains the names
                        pass
                    cands.append((start, kw, end))
                    if header == want[1:]:
                        exact.append((start, kw, end))
            else:
                name_idx = kw + 1
                if kind == 'macro_rules':
                    name_idx = kw + 2
                if name_idx < end and toks[name_idx].text == want[1]:
                    # further tokens of the segment (e.g. `fn handle_error<A>`) must follow the name: tells overloads in different impls apart
                    extra = want[2:]
                    if extra and [t.text for t in toks[name_idx + 1:name_idx + 1 + len(extra)]] != extra:
                        continue
                    cands.append((start, kw, end))
        last = si == len(segs) - 1
        if len(cands) > 1 and len(exact) == 1:
            cands = exact
        if len(cands) > 1:
            # several definitions under different #[cfg]s: keep those live in the production configuration (R2)
            live = []
            for (start, kw, end) in cands:
                ok = True
                i = start
                while i < kw:
                    if toks[i].text == '#' and toks[i + 1].text == '[':
                        rb = match_close(toks, i + 1)
                        inner = toks[i + 2:rb]
                        if inner and inner[0].text == 'cfg' and len(inner) > 1 and inner[1].text == '(':
                            try:
                                if not eval_cfg(inner[2:-1], CFG_DEFAULT):
                                    ok = False
                            except Maintenance:
                                pass
                        i = rb + 1
                    else:
                        i += 1
                if ok:
                    live.append((start, kw, end))
            if live:
                cands = live
        if not cands:
            raise Maintenance('anchor lost: `%s` (segment `%s`) not found' % (path, seg))
        if last:
            if len(cands) > 1:
                raise Maintenance('anchor ambiguous: `%s` matches %d items' % (path, len(cands)))
            found = cands[0]
        else:
            # descend: several impl blocks may match; search all of them for the next segment
            nxt = ' :: '.join(segs[si + 1:])
            hits = []
            for (start, kw, end) in cands:
                he = _header_end(toks, kw, end)
                if he is None:
                    continue
                close = match_close(toks, he)
                try:
                    hits.append(_locate_in(toks, he + 1, close, nxt))
                except Maintenance:
                    continue
            if len(hits) == 0:
                raise Maintenance('anchor lost: `%s`' % path)
            if len(hits) > 1:
                raise Maintenance('anchor ambiguous: `%s` matches %d items' % (path, len(hits)))
            return hits[0]
    return found


def _locate_in(toks, lo, hi, path):
    sub = toks[lo:hi]
    (s, k, e) = locate(sub, path)
    return (s + lo, k + lo, e + lo)


# --------------------------------------------------------------------------- generic rules

CFG_DEFAULT = {
    'test': False, 'fuzzing': False, 'debug_assertions': True, 'feature="std"': True, 'feature="grind_signatures"': False,
    'feature="_test_utils"': False, 'feature="_externalize_tests"': False, 'feature="dnssec"': False,
    'c_bindings': False, 'ldk_test_vectors': False, 'taproot': False, 'async_signing': False, 'splicing': True,
    'simple_close': False, 'ldk_bench': False, 'require_route_graph_test': False, 'kani': False, 'ldk_verif': False,
    'target_pointer_width="64"': True, 'target_pointer_width="32"': False, 'secp256k1_fuzz': False, 'hashes_fuzz': False,
}


def eval_cfg(toks, env):
    """toks: tokens inside cfg( ... ). Returns bool or raises Maintenance for unknown atoms."""
    pos = [0]

    def parse():
        t = toks[pos[0]]
        if t.kind == 'ident' and t.text in ('any', 'all', 'not') and pos[0] + 1 < len(toks) and toks[pos[0] + 1].text == '(':
            op = t.text
            pos[0] += 2
            vals = []
            while toks[pos[0]].text != ')':
                vals.append(parse())
                if toks[pos[0]].text == ',':
                    pos[0] += 1
            pos[0] += 1
            if op == 'any':
                return any(vals)
            if op == 'all':
                return all(vals)
            return not vals[0]
        key = t.text
        pos[0] += 1
        if pos[0] < len(toks) and toks[pos[0]].text == '=':
            key = key + '=' + toks[pos[0] + 1].text
            pos[0] += 2
        if key not in env:
            raise Maintenance('cfg atom `%s` has no value in the production configuration table' % key)
        return env[key]

    return parse()


def _skip_thing(toks, i, hi):
    """toks[i] starts an item/statement/field/arm; return index just past it."""
    # further attributes
    while i < hi and toks[i].text == '#' and i + 1 < hi and toks[i + 1].text == '[':
        i = match_close(toks, i + 1) + 1
    if i >= hi:
        return i
    first = toks[i].text
    j = i
    is_let = first == 'let'
    while j < hi:
        t = toks[j]
        if t.kind == 'punct':
            if t.text in OPEN:
                k = match_close(toks, j)
                if t.text == '{':
                    nxt = toks[k + 1].text if k + 1 < hi else None
                    if nxt == 'else' or nxt in ('.', '?', 'as'):
                        j = k + 1
                        continue
                    if nxt in (';', ','):
                        return k + 2
                    if is_let:
                        j = k + 1
                        continue
                    return k + 1
                j = k + 1
                continue
            if t.text in CLOSE:
                return j
            if t.text == ';':
                return j + 1
            if t.text == ',' and not is_let:
                return j + 1
        j += 1
    return j


def apply_attrs_and_cfg(toks, cfg_env, log):
    """R1 (attributes dropped) + R2 (cfg resolved for the production configuration)."""
    out = []
    i = 0
    n = len(toks)
    while i < n:
        t = toks[i]
        if t.text == '#' and i + 1 < n and (toks[i + 1].text == '[' or (toks[i + 1].text == '!' and i + 2 < n and toks[i + 2].text == '[')):
            lb = i + 1 if toks[i + 1].text == '[' else i + 2
            rb = match_close(toks, lb)
            inner = toks[lb + 1:rb]
            ws = t.ws
            if inner and inner[0].text == 'cfg' and len(inner) > 1 and inner[1].text == '(':
                val = eval_cfg(inner[2:-1], cfg_env)
                log.append(('R2', t.file, t.line, 'cfg(%s) = %s' % (render(inner[2:-1]).strip(), val)))
                if not val:
                    end = _skip_thing(toks, rb + 1, n)
                    i = end
                    if i < n:
                        toks[i] = toks[i].copy()
                        toks[i].ws = ws + ''.join('\n' for _ in range(0))
                    continue
            elif inner and inner[0].text == 'cfg_attr':
                pass
            # drop the attribute itself
            i = rb + 1
            if i < n:
                toks[i] = toks[i].copy()
                toks[i].ws = ws
            continue
        out.append(t)
        i += 1
    return out


LOG_MACROS = ('log_trace', 'log_debug', 'log_info', 'log_warn', 'log_error', 'log_gossip', 'log_given_level', 'log_internal')


def drop_logs(toks, log):
    out = []
    i = 0
    n = len(toks)
    while i < n:
        t = toks[i]
        if t.kind == 'ident' and t.text in LOG_MACROS and i + 2 < n and toks[i + 1].text == '!' and toks[i + 2].text in OPEN:
            k = match_close(toks, i + 2)
            if k + 1 < n and toks[k + 1].text == ';':
                log.append(('R3', t.file, t.line, t.text + '!(..); deleted'))
                i = k + 2
                continue
        out.append(t)
        i += 1
    return out


def strip_paths(toks, mods, log):
    """R4: drop leading module segments (`crate::ln::chan_utils::X` -> `X`)."""
    mods = set(mods) | {'crate', 'super'}
    out = []
    i = 0
    n = len(toks)
    while i < n:
        t = toks[i]
        prev = out[-1].text if out else None
        if t.kind == 'ident' and t.text in mods and i + 1 < n and toks[i + 1].text == '::' and prev not in ('::', '.'):
            ws = t.ws
            j = i
            while j + 1 < n and toks[j].kind == 'ident' and toks[j].text in mods and toks[j + 1].text == '::':
                j += 2
            # also swallow any further lowercase module segments directly after crate::/super::
            while j + 1 < n and toks[j].kind == 'ident' and toks[j + 1].text == '::' and toks[j].text in mods:
                j += 2
            log.append(('R4', t.file, t.line, render(toks[i:j]).strip() + ' stripped'))
            nt = toks[j].copy()
            nt.ws = ws
            out.append(nt)
            i = j + 1
            continue
        out.append(t)
        i += 1
    return out


def normalise_vis(toks):
    """`pub(crate)`/`pub(super)` -> `pub` (R1)."""
    out = []
    i = 0
    n = len(toks)
    while i < n:
        t = toks[i]
        if t.kind == 'ident' and t.text == 'pub' and i + 1 < n and toks[i + 1].text == '(':
            k = match_close(toks, i + 1)
            inner = [x.text for x in toks[i + 2:k]]
            if inner and inner[0] in ('crate', 'super', 'in', 'self'):
                out.append(t)
                i = k + 1
                continue
        out.append(t)
        i += 1
    return out


def widen_item_vis(toks, kind):
    """R1: `pub` on the extracted struct/enum/type/const item and on every struct field (visibility has no
    run-time meaning; Verus needs the spec-visible parts public)."""
    out = list(toks)
    # item keyword position
    k = 0
    while k < len(out) and not (out[k].kind == 'ident' and out[k].text == kind):
        k += 1
    if k >= len(out):
        return out
    if not any(t.text == 'pub' for t in out[:k]):
        first = out[0] if k == 0 else out[0]
        pub = Tok('ident', 'pub', out[0].ws, out[0].file, out[0].line)
        out[0] = out[0].copy()
        out[0].ws = ' '
        out.insert(0, pub)
        k += 1
    if kind != 'struct':
        return out
    # find field group
    j = k
    while j < len(out) and out[j].text not in ('{', '(', ';'):
        j += 1
    if j >= len(out) or out[j].text == ';':
        return out
    close = match_close(out, j)
    res = out[:j + 1]
    i = j + 1
    angle = 0
    at_field_start = True
    while i < close:
        t = out[i]
        if at_field_start:
            if t.text == '#':
                # attribute (should have been removed already)
                pass
            if not (t.kind == 'ident' and t.text == 'pub'):
                nt = Tok('ident', 'pub', t.ws, t.file, t.line)
                t = t.copy()
                t.ws = ' '
                res.append(nt)
            at_field_start = False
            res.append(t)
            i += 1
            continue
        if t.kind == 'punct' and t.text in OPEN:
            kk = match_close(out, i)
            res.extend(out[i:kk + 1])
            i = kk + 1
            continue
        if t.text == '<':
            angle += 1
        elif t.text == '>':
            angle -= 1
        elif t.text == ',' and angle == 0:
            at_field_start = True
        res.append(t)
        i += 1
    res.extend(out[close:])
    return res


def assert_eq_rule(toks, log):
    """R10: debug_assert_eq!(a, b[, msg..]) -> debug_assert!(a == b); likewise _ne and assert_eq/ne.
    Also drops format messages of assert!/debug_assert! (message has no effect on the predicate)."""
    out = []
    i = 0
    n = len(toks)
    names = {'debug_assert_eq': ('debug_assert', '=='), 'debug_assert_ne': ('debug_assert', '!='),
             'assert_eq': ('assert', '=='), 'assert_ne': ('assert', '!=')}
    while i < n:
        t = toks[i]
        if t.kind == 'ident' and t.text in names and i + 2 < n and toks[i + 1].text == '!' and toks[i + 2].text == '(':
            k = match_close(toks, i + 2)
            args = split_top(toks[i + 3:k], ',')
            if len(args) < 2:
                raise Maintenance('R10: cannot split %s! arguments at line %d' % (t.text, t.line))
            new, op = names[t.text]
            log.append(('R10', t.file, t.line, '%s! -> %s!(a %s b)' % (t.text, new, op)))
            nt = t.copy()
            nt.text = new
            out.append(nt)
            out.append(toks[i + 1])
            out.append(toks[i + 2])
            out.append(Tok('punct', '(', '', t.file, t.line))
            out.extend(args[0])
            out.append(Tok('punct', ')', '', t.file, t.line))
            out.append(Tok('punct', op, ' ', t.file, t.line))
            out.append(Tok('punct', '(', ' ', t.file, t.line))
            out.extend(args[1])
            out.append(Tok('punct', ')', '', t.file, t.line))
            out.append(toks[k])
            i = k + 1
            continue
        if t.kind == 'ident' and t.text in ('assert', 'debug_assert') and i + 2 < n and toks[i + 1].text == '!' and toks[i + 2].text == '(' \
                and t.file != 'unit':
            k = match_close(toks, i + 2)
            args = split_top(toks[i + 3:k], ',')
            if len(args) >= 2 and args[1] and args[1][0].kind == 'str':
                log.append(('R10', t.file, t.line, '%s! message dropped' % t.text))
                out.extend(toks[i:i + 3])
                out.extend(args[0])
                out.append(toks[k])
                i = k + 1
                continue
        out.append(t)
        i += 1
    return out


def split_or_patterns(toks, log):
    """R7: a match arm `P1 | P2 | .. => BODY` becomes one arm per alternative, each with a copy of BODY
    (the definition of or-patterns).  Applied to every match of the item (outermost first, then recursively
    inside the copied bodies)."""
    out = []
    i = 0
    n = len(toks)
    while i < n:
        t = toks[i]
        if t.kind == 'ident' and t.text == 'match' and t.file != 'unit':
            # find the match block
            j = i + 1
            while j < n and toks[j].text != '{':
                if toks[j].kind == 'punct' and toks[j].text in OPEN:
                    j = match_close(toks, j)
                j += 1
            if j >= n:
                out.append(t)
                i += 1
                continue
            close = match_close(toks, j)
            out.extend(toks[i:j + 1])
            k = j + 1
            while k < close:
                # pattern: until `=>` at depth 0
                ps = k
                while k < close and toks[k].text != '=>':
                    if toks[k].kind == 'punct' and toks[k].text in OPEN:
                        k = match_close(toks, k)
                    k += 1
                if k >= close:
                    out.extend(toks[ps:close])
                    break
                pat = toks[ps:k]
                arrow = toks[k]
                # body
                b = k + 1
                if toks[b].text == '{':
                    be = match_close(toks, b) + 1
                    if be < close and toks[be].text == ',':
                        be += 1
                    body = toks[b:be]
                else:
                    be = b
                    while be < close and toks[be].text != ',':
                        if toks[be].kind == 'punct' and toks[be].text in OPEN:
                            be = match_close(toks, be)
                        be += 1
                    if be < close:
                        be += 1
                    body = toks[b:be]
                    if body and body[-1].text != ',':
                        body = body + [Tok('punct', ',', '', body[-1].file, body[-1].line)]
                # guard?
                gpos = None
                d = 0
                for x, tk in enumerate(pat):
                    if tk.kind == 'punct' and tk.text in OPEN:
                        d += 1
                    elif tk.kind == 'punct' and tk.text in CLOSE:
                        d -= 1
                    elif d == 0 and tk.kind == 'ident' and tk.text == 'if':
                        gpos = x
                        break
                guard = pat[gpos:] if gpos is not None else []
                purepat = pat[:gpos] if gpos is not None else pat
                alts = split_top(purepat, '|')
                body = split_or_patterns(body, log)
                if len(alts) > 1:
                    log.append(('R7', arrow.file, arrow.line, 'or-pattern with %d alternatives split into one arm each' % len(alts)))
                    for ai, alt in enumerate(alts):
                        alt = [x.copy() for x in alt]
                        if ai > 0 and alt:
                            alt[0].ws = '\n' + (purepat[0].ws.split('\n')[-1] if purepat else '')
                        out.extend(alt)
                        out.extend(x.copy() for x in guard)
                        out.append(arrow.copy())
                        out.extend(x.copy() for x in body)
                else:
                    out.extend(pat)
                    out.append(arrow)
                    out.extend(body)
                k = be
            out.append(toks[close])
            i = close + 1
            continue
        out.append(t)
        i += 1
    return out


def split_top(toks, sep):
    parts = [[]]
    i = 0
    n = len(toks)
    while i < n:
        t = toks[i]
        if t.kind == 'punct' and t.text in OPEN:
            k = match_close(toks, i)
            parts[-1].extend(toks[i:k + 1])
            i = k + 1
            continue
        if t.kind == 'punct' and t.text == sep:
            parts.append([])
            i += 1
            continue
        parts[-1].append(t)
        i += 1
    if parts and not parts[-1]:
        parts.pop()
    return parts


# --------------------------------------------------------------------------- token patterns

class Pat:
    def __init__(self, text):
        toks, _ = lex(text)
        self.items = []
        i = 0
        while i < len(toks):
            t = toks[i]
            if t.text == '$' and i + 1 < len(toks) and toks[i + 1].kind == 'ident' and toks[i + 1].ws == '':
                name = toks[i + 1].text
                kind = 'seq'
                i += 2
                if i + 1 < len(toks) and toks[i].text == ':' and toks[i].ws == '' and toks[i + 1].kind == 'ident' and toks[i + 1].ws == '' \
                        and toks[i + 1].text in ('ident', 'tt', 'any', 'lit', 'seq', 'straight', 'cond'):
                    kind = toks[i + 1].text
                    i += 2
                self.items.append(('var', name, kind))
            else:
                self.items.append(('lit', t.text, t.kind))
                i += 1
        self.text = text


def _balanced_ok(toks, lo, hi, allow_semi):
    depth = 0
    for j in range(lo, hi):
        t = toks[j]
        if t.kind == 'punct':
            if t.text in OPEN:
                depth += 1
            elif t.text in CLOSE:
                depth -= 1
                if depth < 0:
                    return False
            elif t.text == ';' and depth == 0 and not allow_semi:
                return False
    return depth == 0


def match_at(pat, toks, i, hi):
    """Try to match pat at toks[i]; returns (end, captures) or None. Minimal captures with backtracking."""
    items = pat.items

    def rec(pi, ti, caps):
        if pi == len(items):
            return ti, caps
        it = items[pi]
        if it[0] == 'lit':
            if ti < hi and toks[ti].text == it[1]:
                return rec(pi + 1, ti + 1, caps)
            return None
        _, name, kind = it
        if name in caps:
            prev = caps[name]
            L = len(prev)
            if ti + L <= hi and [x.text for x in toks[ti:ti + L]] == [x.text for x in prev]:
                return rec(pi + 1, ti + L, caps)
            return None
        if kind == 'ident':
            if ti < hi and toks[ti].kind == 'ident':
                c2 = dict(caps)
                c2[name] = [toks[ti]]
                return rec(pi + 1, ti + 1, c2)
            return None
        if kind == 'lit':
            if ti < hi and toks[ti].kind in ('num', 'str', 'char'):
                c2 = dict(caps)
                c2[name] = [toks[ti]]
                return rec(pi + 1, ti + 1, c2)
            return None
        if kind == 'tt':
            if ti >= hi:
                return None
            if toks[ti].kind == 'punct' and toks[ti].text in OPEN:
                k = match_close(toks, ti)
                end = k + 1
            elif toks[ti].kind == 'punct' and toks[ti].text in CLOSE:
                return None
            else:
                end = ti + 1
            c2 = dict(caps)
            c2[name] = toks[ti:end]
            return rec(pi + 1, end, c2)
        # seq / any: minimal length first; jump over bracket groups
        # 'straight' = 'any' that contains no control transfer (return / break / continue at any depth): dropped statements
        # captured with it cannot leave the sliced function or loop early
        allow_semi = kind in ('any', 'straight')
        min_len = 0 if kind in ('any', 'straight') else 1
        end = ti
        first = True
        while True:
            if end - ti >= min_len and not first or (first and min_len == 0):
                pass
            if kind == 'straight' and any(x.kind == 'ident' and x.text in ('return', 'break', 'continue') for x in toks[ti:end]):
                return None
            if end - ti >= min_len:
                c2 = dict(caps)
                c2[name] = toks[ti:end]
                r = rec(pi + 1, end, c2)
                if r is not None:
                    return r
            first = False
            if end >= hi:
                return None
            t = toks[end]
            if t.kind == 'punct' and t.text in CLOSE:
                return None
            if t.kind == 'punct' and t.text == ';' and not allow_semi:
                return None
            if kind == 'cond' and t.kind == 'punct' and t.text == '{':
                # 'cond' = 'seq' without a top-level brace group (the condition of an if / while)
                return None
            if t.kind == 'punct' and t.text in OPEN:
                try:
                    k = match_close(toks, end)
                except LexError:
                    return None
                if k >= hi:
                    return None
                end = k + 1
            else:
                end += 1

    return rec(0, i, {})


def find_matches(pat, toks, lo=0, hi=None):
    hi = len(toks) if hi is None else hi
    res = []
    i = lo
    while i < hi:
        m = match_at(pat, toks, i, hi)
        if m is not None and m[0] > i:
            res.append((i, m[0], m[1]))
            i = m[0]
        else:
            i += 1
    return res


def instantiate(repl_text, caps, unit_line):
    toks, trailing = lex(repl_text, 'unit', unit_line)
    out = []
    i = 0
    while i < len(toks):
        t = toks[i]
        if t.text == '$' and i + 1 < len(toks) and toks[i + 1].kind == 'ident' and toks[i + 1].ws == '':
            name = toks[i + 1].text
            if name not in caps:
                raise Maintenance('replacement uses unknown capture $%s' % name)
            cap = [x.copy() for x in caps[name]]
            if cap:
                cap[0].ws = t.ws if '\n' not in cap[0].ws or True else cap[0].ws
            out.extend(cap)
            i += 2
            continue
        out.append(t)
        i += 1
    return out


def rewrite(toks, pat_text, repl_text, count, unit_line, log, what, nth=None):
    """Apply pattern -> replacement on toks. count: int (exact), '*' (>=1), '?' (0 or more).
    nth=K: rewrite only the K-th match (there must be at least K)."""
    pat = Pat(pat_text)
    ms = find_matches(pat, toks)
    if nth is not None:
        if len(ms) < nth:
            raise Maintenance('%s: pattern `%s` matched %d time(s), need match #%d (unit line %d)' % (
                what, ' '.join(pat_text.split()), len(ms), nth, unit_line))
        ms = [ms[nth - 1]]
        count = '1'
    if count == '*':
        ok = len(ms) >= 1
    elif count == '?':
        ok = True
    else:
        ok = len(ms) == int(count)
    if not ok:
        raise Maintenance('%s: pattern `%s` matched %d time(s), expected %s (unit line %d)' % (
            what, ' '.join(pat_text.split()), len(ms), count, unit_line))
    out = []
    pos = 0
    for (s, e, caps) in ms:
        out.extend(toks[pos:s])
        rep = instantiate(repl_text, caps, unit_line)
        if rep:
            rep[0].ws = toks[s].ws
        out.extend(rep)
        src = toks[s]
        log.append((what, src.file, src.line, '`%s` -> `%s`' % (' '.join(render(toks[s:e]).split())[:160], ' '.join(render(rep).split())[:160])))
        pos = e
    out.extend(toks[pos:])
    return out


def _pick(ms, nth, what, pat_text, unit_line, kind):
    if nth is None:
        if len(ms) != 1:
            raise Maintenance('%s: %s pattern `%s` matched %d time(s), expected 1 (unit line %d)' % (
                what, kind, ' '.join(pat_text.split())[:400], len(ms), unit_line))
        return ms[0]
    if len(ms) < nth:
        raise Maintenance('%s: %s pattern `%s` matched %d time(s), need match #%d (unit line %d)' % (
            what, kind, ' '.join(pat_text.split())[:400], len(ms), nth, unit_line))
    return ms[nth - 1]


def capture_only(toks, pat_text, unit_line, log, what, nth=None):
    """R15 helper: the pattern must match exactly once anywhere inside the item; returns its captures (used by a later slice)."""
    pat = Pat(pat_text)
    ms = find_matches(pat, toks)
    m = _pick(ms, nth, what, pat_text, unit_line, 'capture')
    log.append((what, toks[m[0]].file, toks[m[0]].line, 'captured `%s`' % ' '.join(render(toks[m[0]:m[1]]).split())[:160]))
    return m[2]


def slice_item(toks, pat_text, repl_text, unit_line, log, what, extra_caps=None, nth=None):
    """R15 (deep form): the pattern must match exactly once anywhere inside the item (at any nesting depth); the WHOLE item is
    replaced by the instantiated replacement (a function made of the captured statements)."""
    pat = Pat(pat_text)
    ms = find_matches(pat, toks)
    (s, e, caps) = _pick(ms, nth, what, pat_text, unit_line, 'slice')
    if extra_caps:
        caps = dict(extra_caps, **caps)
    rep = instantiate(repl_text, caps, unit_line)
    if rep:
        rep[0].ws = toks[0].ws
    log.append((what, toks[s].file, toks[s].line, 'slice [lines %d-%d] `%s` -> `%s`' % (toks[s].line, toks[e - 1].line, ' '.join(render(toks[s:e]).split())[:160], ' '.join(render(rep).split())[:160])))
    return rep


# --------------------------------------------------------------------------- function splitting helpers

def fn_parts(toks):
    """toks of one fn item (attributes already removed). Returns dict of indices."""
    i = 0
    n = len(toks)
    while i < n and not (toks[i].kind == 'ident' and toks[i].text == 'fn'):
        i += 1
    if i >= n:
        raise Maintenance('not a fn item')
    fn_kw = i
    name = toks[i + 1].text
    j = i + 2
    # generics
    if toks[j].text == '<':
        depth = 0
        while j < n:
            if toks[j].text == '<':
                depth += 1
            elif toks[j].text == '>':
                depth -= 1
                if depth == 0:
                    j += 1
                    break
            elif toks[j].text == '->':
                pass
            j += 1
    if toks[j].text != '(':
        raise Maintenance('fn %s: cannot find parameter list' % name)
    lp = j
    rp = match_close(toks, lp)
    # body
    k = rp + 1
    arrow = None
    where = None
    body = None
    while k < n:
        t = toks[k]
        if t.text == '->' and arrow is None:
            arrow = k
        elif t.kind == 'ident' and t.text == 'where' and where is None:
            where = k
        elif t.text == '{':
            body = k
            break
        elif t.text == ';':
            break
        elif t.text in OPEN:
            k = match_close(toks, k)
        k += 1
    if body is None:
        raise Maintenance('fn %s has no body' % name)
    return {'fn': fn_kw, 'name': name, 'lp': lp, 'rp': rp, 'arrow': arrow, 'where': where, 'body': body,
            'body_end': match_close(toks, body), 'gen_start': fn_kw + 2, 'gen_end': lp}



def field_sequence(item, kind, log, root='self'):
    """R21: the ordered list of field names a hand-written codec writes / reads.
    kind 'write': the TOP-LEVEL statements of the function body that end in `.write(W)?` and mention exactly one `self.a.b..` path
    -> the last field of that path (method calls at its end dropped): `self.common_fields.chain_hash.write(w)?`,
    `(self.message_flags | 1).write(w)?`.  kind 'read': in source order (which is evaluation order), every
    `let [mut] NAME [: T] = Readable::read(R)?;` (also `<T as Readable>::read(R)?`) and every struct-literal field
    `NAME: Readable::read(R)?` -> NAME.  Everything else is skipped."""
    ident = re.compile(r'^[A-Za-z_][A-Za-z_0-9]*$')
    i = len(item) - 1
    while i >= 0 and item[i].text != '}':
        i -= 1
    if i < 0:
        raise Maintenance('R21: no function body')
    d = 0
    j = i
    while j >= 0:
        if item[j].text in (')', ']', '}'):
            d += 1
        elif item[j].text in OPEN:
            d -= 1
            if d == 0:
                break
        j -= 1
    body = item[j + 1:i]
    names = []
    if kind == 'write':
        stmts = []
        cur = []
        d = 0
        for t in body:
            if t.text in OPEN:
                d += 1
            elif t.text in (')', ']', '}'):
                d -= 1
            if t.text == ';' and d == 0:
                stmts.append(cur)
                cur = []
            else:
                cur.append(t)
                if t.text == '}' and d == 0 and cur and cur[0].text in ('for', 'if', 'while', 'loop', 'match', '{'):
                    stmts.append(cur)
                    cur = []
        for st in stmts:
            tx = [t.text for t in st]
            if len(tx) >= 8 and tx[-6:-4] == ['.', 'write'] and tx[-4] == '(' and tx[-2] == ')' and tx[-1] == '?' and tx[0] not in ('for', 'if', 'while', 'loop', 'match', '{', 'let'):
                selfs = [k for k, x in enumerate(tx) if x == root and (k == 0 or tx[k - 1] != '.')]
                if len(selfs) == 1:
                    k = selfs[0] + 1
                    chain = []
                    while k + 1 < len(tx) and tx[k] == '.' and ident.match(tx[k + 1]):
                        is_call = k + 2 < len(tx) and tx[k + 2] == '('
                        if is_call:
                            break
                        chain.append(tx[k + 1])
                        k += 2
                    if chain:
                        names.append((chain[-1], st[0].line))
    else:
        tx = [t.text for t in body]
        k = 0
        while k < len(tx):
            def is_read(at):
                # Readable :: read ( R ) ?   |   < T as Readable > :: read ( R ) ?
                if tx[at:at + 3] == ['Readable', '::', 'read'] and at + 6 < len(tx) + 1 and tx[at + 3] == '(' and tx[at + 5] == ')' and at + 6 < len(tx) and tx[at + 6] == '?':
                    return at + 7
                if tx[at] == '<':
                    e = at
                    while e < len(tx) and tx[e] != '>':
                        e += 1
                    if e + 6 < len(tx) and tx[e - 1] == 'Readable' and tx[e - 2] == 'as' and tx[e + 1:e + 3] == ['::', 'read'] and tx[e + 3] == '(' and tx[e + 5] == ')' and tx[e + 6] == '?':
                        return e + 7
                return None
            if tx[k] == 'let':
                m = k + 1
                if m < len(tx) and tx[m] == 'mut':
                    m += 1
                if m < len(tx) and ident.match(tx[m]):
                    nm = tx[m]
                    e = m + 1
                    dd = 0
                    while e < len(tx) and not (tx[e] == '=' and dd == 0) and tx[e] != ';':
                        if tx[e] in ('<', '(', '['):
                            dd += 1
                        elif tx[e] in ('>', ')', ']'):
                            dd -= 1
                        e += 1
                    if e < len(tx) and tx[e] == '=':
                        end = is_read(e + 1)
                        if end is not None and end < len(tx) and tx[end] == ';':
                            names.append((nm, body[k].line))
                            k = end
                            continue
            elif ident.match(tx[k]) and k + 1 < len(tx) and tx[k + 1] == ':' and k > 0 and tx[k - 1] in ('{', ','):
                end = is_read(k + 2)
                if end is not None and end < len(tx) and tx[end] in (',', '}'):
                    names.append((tx[k], body[k].line))
                    k = end
                    continue
            k += 1
    if kind in ('tlvwrite', 'tlvread'):
        # R21 (TLV tables): every invocation of a TLV-stream macro in the function, in source order; for each its records as
        # "TYPE:NAME" (NAME: the record's expression without `self.` / `&` / `*` and, for a plain field path, its last segment),
        # preceded by a "#" separator
        macros = ('write_tlv_fields', 'encode_tlv_stream') if kind == 'tlvwrite' else ('read_tlv_fields', 'decode_tlv_stream', '_init_and_read_len_prefixed_tlv_fields', '_init_and_read_tlv_stream')
        names = []
        tx = [t.text for t in body]
        k = 0
        while k + 2 < len(tx):
            if tx[k] in macros and tx[k + 1] == '!' and tx[k + 2] == '(':
                e = match_close(body, k + 2)
                # the brace group with the records
                b = k + 3
                while b < e and tx[b] != '{':
                    b += 1
                if b < e:
                    be = match_close(body, b)
                    names.append(('#', body[k].line))
                    r = b + 1
                    while r < be:
                        if tx[r] == '(':
                            re_ = match_close(body, r)
                            parts = []
                            cur = []
                            d = 0
                            for x in range(r + 1, re_):
                                if tx[x] in OPEN:
                                    d += 1
                                elif tx[x] in (')', ']', '}'):
                                    d -= 1
                                if tx[x] == ',' and d == 0:
                                    parts.append(cur)
                                    cur = []
                                else:
                                    cur.append(tx[x])
                            parts.append(cur)
                            if len(parts) >= 2:
                                ex = [x for x in parts[1] if x not in ('&', '*', 'ref', 'mut')]
                                if ex[:2] == ['self', '.']:
                                    ex = ex[2:]
                                if all((x == '.' if q % 2 == 1 else ident.match(x)) for q, x in enumerate(ex)) and len(ex) % 2 == 1:
                                    nm = ex[-1]
                                else:
                                    nm = ''.join(ex)
                                names.append(('%s:%s' % (''.join(parts[0]), nm.replace('"', "'")), body[r].line))
                            r = re_ + 1
                        else:
                            r += 1
                k = e + 1
            else:
                k += 1
    if len(names) < 2:
        raise Maintenance('R21: fewer than two %s statements found' % kind)
    log.append(('R21', item[0].file, item[0].line, 'field sequence (%s): %s' % (kind, ', '.join(n for n, _ in names))))
    return names


def strip_ref_patterns(toks, log):
    """R16 (general form): in every `if let PAT = &EXPR` / `while let PAT = &EXPR` the explicit reference pattern is replaced by the
    same pattern under default binding modes: the `&` in front of the pattern's paths and the `ref` keywords are dropped
    (RFC 2005: matching a reference with a non-reference pattern binds by reference). `ref mut` is left alone."""
    out = list(toks)
    i = 0
    n = 0
    while i < len(out):
        if out[i].kind == 'ident' and out[i].text == 'let' and i > 0 and out[i - 1].text in ('if', 'while'):
            j = i + 1
            depth = 0
            eq = None
            while j < len(out):
                t = out[j].text
                if t in OPEN:
                    depth += 1
                elif t in (')', ']', '}'):
                    depth -= 1
                    if depth < 0:
                        break
                elif t == '=' and depth == 0:
                    eq = j
                    break
                elif t in ('{', ';'):
                    break
                j += 1
            if eq is not None and eq + 1 < len(out) and out[eq + 1].text == '&':
                pat = out[i + 1:eq]
                if any(x.text in ('&', 'ref') for x in pat) and not any(pat[k].text == 'ref' and k + 1 < len(pat) and pat[k + 1].text == 'mut' for k in range(len(pat))):
                    kept = []
                    for x in pat:
                        if x.text in ('&', 'ref'):
                            n += 1
                            if kept and False:
                                pass
                            continue
                        kept.append(x)
                    if kept and not kept[0].ws:
                        kept[0].ws = ' '
                    out[i + 1:eq] = kept
        i += 1
    # `match &EXPR { &PAT(ref x) => .., }`: the same rule for the arm patterns of a match on a shared reference
    m = 0
    i = 0
    while i < len(out):
        if out[i].kind == 'ident' and out[i].text == 'match' and i + 1 < len(out) and out[i + 1].text == '&' and not (i + 2 < len(out) and out[i + 2].text == 'mut'):
            j = i + 1
            depth = 0
            while j < len(out) and not (out[j].text == '{' and depth == 0):
                if out[j].text in ('(', '['):
                    depth += 1
                elif out[j].text in (')', ']'):
                    depth -= 1
                j += 1
            if j >= len(out):
                break
            body_open = j
            # collect the pattern spans of the arms
            spans = []
            k = body_open + 1
            ok = True
            while k < len(out) and out[k].text != '}':
                ps = k
                d = 0
                while k < len(out) and not (out[k].text == '=>' and d == 0):
                    if out[k].text in OPEN:
                        d += 1
                    elif out[k].text in (')', ']', '}'):
                        d -= 1
                        if d < 0:
                            ok = False
                            break
                    k += 1
                if not ok or k >= len(out):
                    ok = False
                    break
                spans.append((ps, k))
                k += 1
                if k < len(out) and out[k].text == '{':
                    d = 0
                    while k < len(out):
                        if out[k].text in OPEN:
                            d += 1
                        elif out[k].text in (')', ']', '}'):
                            d -= 1
                            if d == 0:
                                break
                        k += 1
                    k += 1
                    if k < len(out) and out[k].text == ',':
                        k += 1
                else:
                    d = 0
                    while k < len(out):
                        if out[k].text in OPEN:
                            d += 1
                        elif out[k].text in (')', ']', '}'):
                            if d == 0:
                                break
                            d -= 1
                        elif out[k].text == ',' and d == 0:
                            k += 1
                            break
                        k += 1
            if ok and spans:
                pats = [out[a:b] for a, b in spans]
                has_ref_mut = any(pt[x].text == 'ref' and x + 1 < len(pt) and pt[x + 1].text == 'mut' for pt in pats for x in range(len(pt)))
                if not has_ref_mut and any(x.text in ('&', 'ref') for pt in pats for x in pt):
                    drop = set()
                    for a, b in spans:
                        g = next((x for x in range(a, b) if out[x].kind == 'ident' and out[x].text == 'if'), b)
                        for x in range(a, g):
                            if out[x].text in ('&', 'ref'):
                                drop.add(x)
                    m += len(drop)
                    out = [t for x, t in enumerate(out) if x not in drop]
        i += 1
    if n:
        log.append(('R16', toks[0].file, toks[0].line, '%d `&`/`ref` token(s) dropped from reference patterns of `if let .. = &e`' % n))
    if m:
        log.append(('R16', toks[0].file, toks[0].line, '%d `&`/`ref` token(s) dropped from the arm patterns of `match &e { .. }`' % m))
    return out


def rename_metavars(toks, log):
    """R18: inside an extracted macro_rules body (or a function-local macro), every metavariable `$name` is
    alpha-renamed to the identifier `m_name`, so that slices of the body can bind it as an ordinary parameter."""
    out = []
    i = 0
    n = 0
    while i < len(toks):
        t = toks[i]
        if t.text == '$' and i + 1 < len(toks) and toks[i + 1].kind == 'ident' and toks[i + 1].ws == '':
            nt = toks[i + 1].copy()
            nt.text = 'm_' + nt.text
            nt.ws = t.ws
            out.append(nt)
            n += 1
            i += 2
            continue
        out.append(t)
        i += 1
    if n:
        log.append(('R18', toks[0].file, toks[0].line, '%d macro metavariable occurrence(s) `$x` renamed to `m_x`' % n))
    return out


def rename_param(toks, index, want, log):
    """R17: alpha-renaming of the index-th parameter (1-based, `self` not counted) of a fn item to `want`.
    Contracts name parameters; a parameter renamed in the source (e.g. to `_x`) must not lose the contract."""
    p = fn_parts(toks)
    # split the parameter list at top-level commas
    params = []
    cur = []
    i = p['lp'] + 1
    while i < p['rp']:
        t = toks[i]
        if t.text in OPEN:
            j = match_close(toks, i)
            cur.extend(range(i, j + 1))
            i = j + 1
            continue
        if t.text == '<':
            # generic arguments in a type: skip to the matching '>'
            depth = 0
            j = i
            while j < p['rp']:
                if toks[j].text == '<':
                    depth += 1
                elif toks[j].text == '>':
                    depth -= 1
                    if depth == 0:
                        break
                j += 1
            cur.extend(range(i, j + 1))
            i = j + 1
            continue
        if t.text == ',':
            if cur:
                params.append(cur)
            cur = []
        else:
            cur.append(i)
        i += 1
    if cur:
        params.append(cur)
    params = [q for q in params if not any(toks[x].text == 'self' for x in q[:3])]
    if index < 1 or index > len(params):
        raise Maintenance('R17: fn %s has %d parameter(s), no parameter %d' % (p['name'], len(params), index))
    q = params[index - 1]
    k = 0
    while k < len(q) and toks[q[k]].text in ('mut', 'ref'):
        k += 1
    if k + 1 >= len(q) or toks[q[k]].kind != 'ident' or toks[q[k + 1]].text != ':':
        raise Maintenance('R17: parameter %d of fn %s is not a plain `name: Type`' % (index, p['name']))
    have = toks[q[k]].text
    if have == want:
        return toks
    if any(t.kind == 'ident' and t.text == want for t in toks):
        raise Maintenance('R17: cannot rename parameter `%s` to `%s`: the name is already used in fn %s' % (have, want, p['name']))
    for t in toks:
        if t.kind == 'ident' and t.text == have:
            t.text = want
    log.append(('R17', toks[q[k]].file, toks[q[k]].line, 'parameter %d `%s` renamed to `%s`' % (index, have, want)))
    return toks


LOOP_KW = ('for', 'while', 'loop')


def source_loops(toks, lo, hi):
    """Indices of loop keywords that originate from /repo source (not from the unit template)."""
    res = []
    for i in range(lo, hi):
        t = toks[i]
        if t.kind == 'ident' and t.text in LOOP_KW and t.file != 'unit':
            prev = toks[i - 1].text if i > 0 else ''
            if t.text == 'for' and prev in ('impl', '>') :
                # `impl Trait for X` / HRTB `for<'a>`
                if i + 1 < hi and toks[i + 1].text == '<':
                    continue
                if prev == 'impl':
                    continue
            if t.text == 'for' and i + 1 < hi and toks[i + 1].text == '<':
                continue
            res.append(i)
    return res


def loop_body_open(toks, kw, hi):
    j = kw + 1
    while j < hi:
        t = toks[j]
        if t.text == '{':
            return j
        if t.kind == 'punct' and t.text in OPEN:
            j = match_close(toks, j) + 1
            continue
        j += 1
    raise Maintenance('loop body not found (line %d)' % toks[kw].line)


def sha_of(toks):
    return hashlib.sha256(' '.join(t.text for t in toks).encode()).hexdigest()[:16]
