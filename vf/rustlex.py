"""Minimal Rust lexer: enough to locate items, match brackets and rewrite token sequences.

Tokens keep the whitespace that preceded them (comments are dropped, their newlines are kept) and an
origin (file, line) so the assembled Verus file can be mapped back to /repo or to the unit template.
"""
import re

OPS3 = ['..=', '<<=', '>>=', '...', '==>', '&&&', '|||', '=~=']
OPS2 = ['::', '->', '=>', '==', '!=', '<=', '>=', '&&', '||', '+=', '-=', '*=', '/=', '%=', '^=', '&=', '|=', '<<', '..']
# NOTE: '>>' is deliberately not an operator token (generics `Vec<Vec<u8>>`); '>' '>' is emitted.

OPEN = {'(': ')', '[': ']', '{': '}'}
CLOSE = {')': '(', ']': '[', '}': '{'}

_ident_re = re.compile(r'[A-Za-z_][A-Za-z0-9_]*')
_num_re = re.compile(r'(0x[0-9a-fA-F_]+|0b[01_]+|0o[0-7_]+|[0-9][0-9_]*(\.[0-9][0-9_]*)?([eE][+-]?[0-9_]+)?)([iuf](8|16|32|64|128|size))?')


class Tok:
    __slots__ = ('kind', 'text', 'ws', 'file', 'line')

    def __init__(self, kind, text, ws='', file=None, line=0):
        self.kind = kind  # ident | num | str | char | life | punct
        self.text = text
        self.ws = ws
        self.file = file
        self.line = line

    def __repr__(self):
        return 'Tok(%s,%r)' % (self.kind, self.text)

    def copy(self):
        return Tok(self.kind, self.text, self.ws, self.file, self.line)


class LexError(Exception):
    pass


def lex(src, file=None, first_line=1, keep_doc=False):
    toks = []
    i = 0
    n = len(src)
    line = first_line
    ws = ''
    while i < n:
        c = src[i]
        if c in ' \t\r':
            ws += c
            i += 1
            continue
        if c == '\n':
            ws += c
            line += 1
            i += 1
            continue
        if src.startswith('//', i):
            j = src.find('\n', i)
            if j < 0:
                j = n
            i = j
            continue
        if src.startswith('/*', i):
            depth = 1
            j = i + 2
            while j < n and depth > 0:
                if src.startswith('/*', j):
                    depth += 1
                    j += 2
                elif src.startswith('*/', j):
                    depth -= 1
                    j += 2
                else:
                    if src[j] == '\n':
                        ws += '\n'
                        line += 1
                    j += 1
            i = j
            continue
        start_line = line
        # raw strings / byte strings
        m = re.match(r'(b?r)(#*)"', src[i:i + 40])
        if m:
            hashes = m.group(2)
            endpat = '"' + hashes
            j = src.find(endpat, i + len(m.group(0)))
            if j < 0:
                raise LexError('unterminated raw string at line %d' % line)
            j += len(endpat)
            text = src[i:j]
            line += text.count('\n')
            toks.append(Tok('str', text, ws, file, start_line))
            ws = ''
            i = j
            continue
        if c == '"' or (c == 'b' and i + 1 < n and src[i + 1] == '"'):
            j = i + (2 if c == 'b' else 1)
            while j < n and src[j] != '"':
                if src[j] == '\\':
                    j += 1
                j += 1
            j += 1
            text = src[i:j]
            line += text.count('\n')
            toks.append(Tok('str', text, ws, file, start_line))
            ws = ''
            i = j
            continue
        if c == "'" or (c == 'b' and i + 1 < n and src[i + 1] == "'"):
            k = i + (1 if c == 'b' else 0)
            # char literal or lifetime
            m = re.match(r"'(\\x[0-9a-fA-F]{2}|\\u\{[0-9a-fA-F_]+\}|\\.|[^\\'])'", src[k:k + 16])
            if m:
                j = k + len(m.group(0))
                toks.append(Tok('char', src[i:j], ws, file, start_line))
                ws = ''
                i = j
                continue
            m = re.match(r"'[A-Za-z_][A-Za-z0-9_]*", src[k:k + 64])
            if m and c == "'":
                j = k + len(m.group(0))
                toks.append(Tok('life', src[i:j], ws, file, start_line))
                ws = ''
                i = j
                continue
            raise LexError('bad quote at line %d' % line)
        m = _ident_re.match(src, i)
        if m:
            j = m.end()
            text = m.group(0)
            # raw identifiers r#foo
            if text == 'r' and src.startswith('#', j):
                m2 = _ident_re.match(src, j + 1)
                if m2:
                    j = m2.end()
                    text = src[i:j]
            toks.append(Tok('ident', text, ws, file, start_line))
            ws = ''
            i = j
            continue
        if c.isdigit():
            m = _num_re.match(src, i)
            j = m.end()
            # `0..n` : do not swallow the range dots as a float
            text = m.group(0)
            if '.' in text and src.startswith('..', i + text.index('.')):
                j = i + text.index('.')
                text = src[i:j]
            elif '.' in text and j < n and (src[j].isalpha() or src[j] == '_'):
                # `1.foo()` method call on integer literal
                j = i + text.index('.')
                text = src[i:j]
            toks.append(Tok('num', text, ws, file, start_line))
            ws = ''
            i = j
            continue
        for ops in (OPS3, OPS2):
            hit = None
            for op in ops:
                if src.startswith(op, i):
                    hit = op
                    break
            if hit:
                break
        if hit:
            toks.append(Tok('punct', hit, ws, file, start_line))
            ws = ''
            i += len(hit)
            continue
        toks.append(Tok('punct', c, ws, file, start_line))
        ws = ''
        i += 1
    return toks, ws


def match_close(toks, i):
    """toks[i] is an opener; return index of its matching closer."""
    assert toks[i].text in OPEN, toks[i]
    depth = 0
    j = i
    while j < len(toks):
        t = toks[j]
        if t.kind == 'punct':
            if t.text in OPEN:
                depth += 1
            elif t.text in CLOSE:
                depth -= 1
                if depth == 0:
                    return j
        j += 1
    raise LexError('unbalanced bracket starting at line %d' % toks[i].line)


def render(toks):
    return ''.join(t.ws + t.text for t in toks)
