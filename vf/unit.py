"""Unit templates: a Verus file with `//@` directive blocks that pull the real items out of /repo.

Template grammar (line based):

  //! unit: u02                      header lines (key: value); keys: unit, properties, assume, trusted, note
  ...verus text...                   copied verbatim (spec fns, lemmas, env stubs)
  //@const <file> NAME NAME ...      extract const items (one line, no //@end)
  //@fields write|read|tlvwrite|tlvread NAME [only=..] [alias=T:local>T:canonical,..]   (inside //@extract of a fn) R21: replace the fn by `spec fn NAME() -> Seq<&str>`: the field names it writes / reads, in order
  //@extract <file> :: <item path>   start of an extraction block for one item (fn/struct/enum/const/impl)
  //@strip mod mod ...               R4: extra module prefixes to strip
  //@cfg atom=true|false             R2: override of the production cfg table
  //@keeplogs                        disable R3
  //@rw [N|*|?] [name]               token-pattern rewrite; pattern lines follow, then
  //@with                            replacement lines follow
  //@ret NAME                        name the return value:  -> T   becomes  -> (NAME: T)
  //@requires [tag]                  clause text follows (comma separated Verus expressions)
  //@ensures [tag]                   tag `P <prop> <clause-id>` marks a property obligation
  //@decreases
  //@loop K [iter=NAME]              text inserted between the K-th source loop's header and its body
  //@at <where>                      text inserted at: body_start | body_end | loop_body_start K | loop_body_end K |
  //                                 before_loop K | after_loop K | before `tokens` | after `tokens`
  //@mutant NAME                     canary (thorough tier): pattern lines, //@with, replacement lines
  //@novac                           no vacuity probe for this fn
  //@end
"""
import os
import re

from . import extract as X
from .extract import Maintenance
from .rustlex import Tok, lex, match_close, render, OPEN, CLOSE

REPO = os.environ.get('VERIF_REPO', '/repo')

_file_cache = {}


def repo_tokens(rel):
    path = os.path.join(REPO, rel)
    if not os.path.exists(path):
        raise Maintenance('anchor lost: file %s does not exist' % rel)
    st = os.stat(path)
    key = (path, st.st_mtime_ns, st.st_size)
    if key not in _file_cache:
        src = open(path, encoding='utf-8').read()
        toks, _ = lex(src, rel)
        _file_cache[key] = toks
    return _file_cache[key]


class Directive:
    def __init__(self, kind, arg, line):
        self.kind = kind
        self.arg = arg
        self.line = line
        self.text_lines = []   # (unit_line, text)
        self.with_lines = None
        self.with_tmpl = None

    def text(self):
        return '\n'.join(t for (_, t) in self.text_lines)

    def first_text_line(self):
        return self.text_lines[0][0] if self.text_lines else self.line

    def with_text(self, templates=None):
        if self.with_tmpl:
            if not templates or self.with_tmpl not in templates:
                raise Maintenance('unknown template %s (unit line %d)' % (self.with_tmpl, self.line))
            args = {}
            key = None
            for (_, t) in (self.with_lines or []):
                m = re.match(r'\s*([A-Z][A-Z0-9_]*)\s*=\s?(.*)$', t)
                if m:
                    key = m.group(1)
                    args[key] = m.group(2)
                elif key:
                    args[key] += '\n' + t
            text = templates[self.with_tmpl]
            for k, v in args.items():
                text = text.replace('#' + k + '#', v)
            m = re.search(r'#([A-Z][A-Z0-9_]*)#', text)
            if m:
                raise Maintenance('template %s: parameter %s not given (unit line %d)' % (self.with_tmpl, m.group(1), self.line))
            return text
        return '\n'.join(t for (_, t) in (self.with_lines or []))


class Block:
    def __init__(self, file, path, line):
        self.file = file
        self.path = path
        self.line = line
        self.dirs = []


class Unit:
    def __init__(self, path):
        self.path = path
        self.name = os.path.splitext(os.path.basename(path))[0]
        self.header = {'properties': [], 'assume': [], 'trusted': [], 'note': []}
        self.parts = []   # ('raw', line_no, text) | ('block', Block) | ('const', line, file, names)
        self.templates = {}
        self._parse()

    def _parse(self):
        lines = open(self.path, encoding='utf-8').read().split('\n')
        cur = None
        curdir = None
        in_with = False
        tmpl = None
        for ln, text in enumerate(lines, 1):
            s = text.strip()
            if tmpl is not None:
                if s.startswith('//@endtemplate'):
                    tmpl = None
                else:
                    self.templates[tmpl] += text + '\n'
                continue
            if s.startswith('//@template'):
                tmpl = s.split()[1]
                self.templates[tmpl] = ''
                continue
            if s.startswith('//!'):
                m = re.match(r'//!\s*(\w+)\s*:\s*(.*)$', s)
                if m:
                    k, v = m.group(1), m.group(2).strip()
                    if k == 'unit':
                        self.name = v
                    elif k == 'properties':
                        self.header['properties'] = v.split()
                    else:
                        self.header.setdefault(k, []).append(v)
                continue
            if s.startswith('//@'):
                body = s[3:].strip()
                kw = body.split()[0] if body else ''
                arg = body[len(kw):].strip()
                if kw == 'const':
                    f = arg.split()[0]
                    self.parts.append(('const', ln, f, arg.split()[1:]))
                    continue
                if kw in ('extract', 'extract?'):
                    if cur is not None:
                        raise Maintenance('%s:%d: nested //@extract' % (self.path, ln))
                    f, p = arg.split(' :: ', 1)
                    cur = Block(f.strip(), p.strip(), ln)
                    cur.optional = kw == 'extract?'
                    curdir = None
                    continue
                if cur is None:
                    raise Maintenance('%s:%d: directive outside //@extract block' % (self.path, ln))
                if kw == 'end':
                    self.parts.append(('block', cur))
                    cur = None
                    curdir = None
                    continue
                if kw in ('with', 'with_template'):
                    if curdir is None or curdir.kind not in ('rw', 'mutant', 'slice'):
                        raise Maintenance('%s:%d: //@with without //@rw' % (self.path, ln))
                    curdir.with_lines = []
                    if kw == 'with_template':
                        curdir.with_tmpl = arg.split()[0]
                    in_with = True
                    continue
                curdir = Directive(kw, arg, ln)
                in_with = False
                cur.dirs.append(curdir)
                continue
            if cur is not None:
                if curdir is None:
                    if s == '':
                        continue
                    raise Maintenance('%s:%d: text inside //@extract before any directive' % (self.path, ln))
                if in_with:
                    curdir.with_lines.append((ln, text))
                else:
                    curdir.text_lines.append((ln, text))
                continue
            self.parts.append(('raw', ln, text))
        if cur is not None:
            raise Maintenance('%s: unterminated //@extract (line %d)' % (self.path, cur.line))

    # ------------------------------------------------------------------ assembly

    def assemble(self, mutant=None):
        """Returns Assembled. mutant = (block_index, mutant_name) applies a canary."""
        out = Emitter()
        info = {'functions': [], 'extraction': [], 'clauses': [], 'vac': [], 'mutants': [], 'rules': set(), 'loc': 0}
        bidx = 0
        oneof = {}
        for part in self.parts:
            if part[0] == 'raw':
                out.raw(part[2], ('unit', part[1]))
            elif part[0] == 'const':
                _, ln, f, names = part
                toks = repo_tokens(f)
                for nm in names:
                    log = []
                    (s, k, e) = X.locate(toks, 'const ' + nm)
                    item = [t.copy() for t in toks[s:e]]
                    item = X.apply_attrs_and_cfg(item, dict(X.CFG_DEFAULT), log)
                    item = X.strip_paths(item, [], log)
                    item = X.normalise_vis(item)
                    if item:
                        item[0].ws = ''
                    item = X.widen_item_vis(item, 'const')
                    out.tokens(item)
                    out.raw('', ('unit', ln))
                    info['extraction'].append({'item': 'const ' + nm, 'file': f, 'lines': '%d-%d' % (toks[k].line, toks[e - 1].line),
                                               'rules': sorted(set(r[0] for r in log) | {'R1'}), 'sha': X.sha_of(toks[s:e]),
                                               'text': ' '.join(render(item).split())})
            else:
                blk = part[1]
                mu = mutant[1] if (mutant and mutant[0] == bidx) else None
                group = None
                for d in blk.dirs:
                    if d.kind == 'oneof':
                        group = d.arg.split()[0]
                if group is None:
                    for d in blk.dirs:
                        if d.kind == 'mutant':
                            info['mutants'].append((bidx, d.arg.split()[0], blk.path))
                    self._emit_block(blk, out, info, mu)
                else:
                    # //@oneof G: alternative shapes of the same statement; a block whose anchor is not found is skipped as long as
                    # another block of the group matches (a mutant of a skipped block cannot be applied: it is reported as lost)
                    import copy
                    snap_out, snap_info = copy.deepcopy(out), copy.deepcopy(info)
                    try:
                        for d in blk.dirs:
                            if d.kind == 'mutant':
                                info['mutants'].append((bidx, d.arg.split()[0], blk.path))
                        self._emit_block(blk, out, info, mu)
                        oneof.setdefault(group, []).append(None)
                    except Maintenance as ex:
                        out.__dict__.update(snap_out.__dict__)
                        info.clear()
                        info.update(snap_info)
                        oneof.setdefault(group, []).append(str(ex))
                        if mu is not None:
                            raise
                bidx += 1
        for g, res in oneof.items():
            if all(r is not None for r in res):
                raise Maintenance('no alternative of //@oneof %s matches: %s' % (g, ' | '.join(res)))
        # vacuity probes for the template's own lemmas (proof fns with a `requires`)
        raw_text = '\n'.join(p[2] for p in self.parts if p[0] == 'raw')
        try:
            rt, _ = lex(raw_text, 'unit', 1)
        except Exception:
            rt = []
        probes = []
        i = 0
        while i + 2 < len(rt):
            if rt[i].text == 'proof' and rt[i + 1].text == 'fn' and rt[i + 2].kind == 'ident':
                name = rt[i + 2].text
                j = i + 3
                gen = []
                if rt[j].text == '<':
                    d = 0
                    k = j
                    while k < len(rt):
                        if rt[k].text == '<':
                            d += 1
                        elif rt[k].text == '>':
                            d -= 1
                            if d == 0:
                                break
                        k += 1
                    gen = rt[j:k + 1]
                    j = k + 1
                if j < len(rt) and rt[j].text == '(':
                    rp = match_close(rt, j)
                    params = rt[j:rp + 1]
                    k = rp + 1
                    req = None
                    while k < len(rt) and rt[k].text != '{':
                        if rt[k].kind == 'ident' and rt[k].text == 'requires':
                            req = k
                        if rt[k].kind == 'ident' and rt[k].text in ('ensures', 'decreases') and req is not None:
                            break
                        if rt[k].text in OPEN:
                            k = match_close(rt, k)
                        k += 1
                    if req is not None and not name.startswith('vac__'):
                        reqtoks = rt[req + 1:k]
                        probes.append((name, ' '.join(render(gen).split()), ' '.join(render(params).split()), ' '.join(render(reqtoks).split())))
                    i = k
                    continue
            i += 1
        if probes and 'novaclemmas' not in self.header:
            # emit inside the verus! block: before its closing brace (the last `}` before `fn main`)
            text = out.text()
            idx = text.rfind('}', 0, text.rfind('fn main'))
            if idx > 0:
                head = text[:idx]
                tail = text[idx:]
                line = head.count('\n') + 1
                add = []
                for (name, gen, params, req) in probes:
                    vname = 'vac__lemma__' + name
                    body = 'proof fn %s%s%s\n    requires %s\n    ensures false\n{}\n' % (vname, gen, params, req.rstrip(',') + ',')
                    start = line
                    line += body.count('\n')
                    info['vac'].append({'fn': name, 'probe': vname, 'out_lines': (start, line - 1)})
                    add.append(body)
                newtext = head + ''.join(add) + tail
                lm = dict(out.linemap)
                shift = sum(a.count('\n') for a in add)
                base = head.count('\n') + 1
                lm2 = {}
                for k2, v in lm.items():
                    lm2[k2 if k2 < base else k2 + shift] = v
                for l in range(base, base + shift):
                    lm2[l] = ('unit', 0)
                return Assembled(newtext, lm2, info, self)
        return Assembled(out.text(), out.linemap, info, self)

    def _emit_block(self, blk, out, info, mutant_name):
        toks = repo_tokens(blk.file)
        try:
            (s, k, e) = X.locate(toks, blk.path)
        except Maintenance as ex:
            # `//@extract?`: an item the repository need not have (for instance a trait method that only a repaired tree has).  Absent item =
            # nothing to verify and nothing that could call it; the file and the enclosing impl must be there all the same
            if getattr(blk, 'optional', False) and 'anchor lost' in str(ex) and ' :: ' in blk.path:
                X.locate(toks, blk.path.rsplit(' :: ', 1)[0])
                info.setdefault('skipped_optional_extracts', []).append('%s :: %s (unit line %d): not in the source' % (blk.file, blk.path, blk.line))
                return
            raise
        item = [t.copy() for t in toks[s:e]]
        src_sha = X.sha_of(item)
        src_lines = '%d-%d' % (toks[k].line, toks[e - 1].line)
        log = []
        cfg_env = dict(X.CFG_DEFAULT)
        strip = []
        keeplogs = False
        novac = False
        for d in blk.dirs:
            if d.kind == 'cfg':
                a, v = d.arg.rsplit('=', 1)
                cfg_env[a.strip()] = v.strip() == 'true'
            elif d.kind == 'strip':
                strip += d.arg.split()
            elif d.kind == 'keeplogs':
                keeplogs = True
            elif d.kind == 'novac':
                novac = True
        if any(d.kind == 'metavars' for d in blk.dirs):
            item = X.rename_metavars(item, log)
        if mutant_name:
            for d in blk.dirs:
                if d.kind == 'mutant' and d.arg.split()[0] == mutant_name:
                    item = X.rewrite(item, d.text(), d.with_text(), '1', d.line, log, 'MUTANT')
                    # mutated tokens count as source
                    for t in item:
                        if t.file == 'unit':
                            t.file = blk.file
        item = X.apply_attrs_and_cfg(item, cfg_env, log)
        if not keeplogs:
            item = X.drop_logs(item, log)
        item = X.strip_paths(item, strip, log)
        item = X.normalise_vis(item)
        item = X.assert_eq_rule(item, log)
        if any(d.kind == 'r7' for d in blk.dirs):
            item = X.split_or_patterns(item, log)
        extra_caps = {}
        if any(d.kind == 'r16' for d in blk.dirs):
            item = X.strip_ref_patterns(item, log)
        for d in blk.dirs:
            if d.kind == 'param':
                a = d.arg.split()
                item = X.rename_param(item, int(a[0]), a[1], log)
        for d in blk.dirs:
            if d.kind == 'rw':
                args = d.arg.split()
                count = '1'
                name = 'R8'
                nth = None
                for a in args:
                    if a in ('*', '?') or a.isdigit():
                        count = a
                    elif a.startswith('nth='):
                        nth = int(a[4:])
                    else:
                        name = a
                item = X.rewrite(item, d.text(), d.with_text(self.templates), count, d.line, log, name, nth=nth)
            elif d.kind == 'capture':
                nth_ = next((int(a[4:]) for a in d.arg.split() if a.startswith('nth=')), None)
                extra_caps.update(X.capture_only(item, d.text(), d.line, log, ([a for a in d.arg.split() if not a.startswith('nth=')] or ['R15'])[0], nth=nth_))
            elif d.kind == 'slice':
                nth_ = next((int(a[4:]) for a in d.arg.split() if a.startswith('nth=')), None)
                item = X.slice_item(item, d.text(), d.with_text(self.templates), d.line, log, ([a for a in d.arg.split() if not a.startswith('nth=')] or ['R15'])[0], extra_caps, nth=nth_)
        kind = blk.path.split(' :: ')[-1].split()[0]
        if any(d.kind == 'slice' for d in blk.dirs):
            kind = 'fn'  # a slice replaces the item (fn, macro_rules, ...) by the instantiated function
        contracted = False
        fdir = next((d for d in blk.dirs if d.kind == 'fields'), None)
        if fdir is not None:
            # R21: the item is replaced by a spec function returning the ordered list of field names it writes / reads
            fk, fname = fdir.arg.split()[:2]
            names = X.field_sequence(item, fk, log, root=next((a[5:] for a in fdir.arg.split()[2:] if a.startswith('root=')), 'self'))
            arm = next((int(a[4:]) for a in fdir.arg.split()[2:] if a.startswith('arm=')), None)
            if arm is not None:
                # `arm=K` (TLV tables): the records of the K-th TLV-stream invocation of the function only (0-based)
                groups, cur = [], None
                for (n_, l_) in names:
                    if n_ == '#':
                        cur = []
                        groups.append(cur)
                    elif cur is not None:
                        cur.append((n_, l_))
                if arm >= len(groups):
                    raise Maintenance('%s:%d: R21: no TLV invocation number %d' % (self.path, fdir.line, arm))
                names = groups[arm]
            alias = next((a[6:].split(',') for a in fdir.arg.split()[2:] if a.startswith('alias=')), None)
            if alias is not None:
                # `alias=T:local>T:canonical,...` (TLV tables): a record whose value travels under another NAME on this side (a local the reader later moves into
                # the field, a legacy spelling) is listed under the canonical name; every renaming is spelled out in the unit and is part of its trusted text
                amap = dict(x.split('>', 1) for x in alias)
                names = [(amap.get(n, n), l) for (n, l) in names]
            only = next((a[5:].split(',') for a in fdir.arg.split()[2:] if a.startswith('only=')), None)
            if only is not None:
                # `only=a,b,c`: the subsequence of the listed names (nested records and renamed temporaries of a long function are left out)
                names = [(n, l) for (n, l) in names if n in only]
                if len(names) < 2:
                    raise Maintenance('%s:%d: R21: fewer than two of the listed names found' % (self.path, fdir.line))
            out.raw('pub open spec fn %s() -> Seq<&\'static str> { seq![%s] }' % (fname, ', '.join('"%s"' % n for n, _ in names)), (blk.file, names[0][1]))
            out.raw('', ('unit', blk.line))
        elif kind == 'fn':
            item, contracted = self._splice_fn(blk, item, out, info, novac)
        else:
            for d in blk.dirs:
                if d.kind in ('requires', 'ensures', 'loop', 'at', 'ret', 'decreases'):
                    raise Maintenance('%s:%d: `%s` on a non-fn item' % (self.path, d.line, d.kind))
            if item:
                item[0].ws = ''
            if kind in ('struct', 'enum', 'type', 'const', 'static'):
                item = X.widen_item_vis(item, kind)
            if kind == 'const' and any(d.kind == 'fold' for d in blk.dirs):
                item = fold_const(item, log, toks)
            for d in blk.dirs:
                if d.kind == 'derive':
                    # R1 keeps the listed derives (they are in the source; logged)
                    out.raw('#[derive(%s)]' % ', '.join(d.arg.split()), ('unit', d.line))
            start = out.line
            out.tokens(item)
            out.raw('', ('unit', blk.line))
        rules = sorted(set(r[0] for r in log) | {'R1'})
        info['rules'] |= set(rules)
        info['extraction'].append({'item': blk.path, 'file': blk.file, 'lines': src_lines, 'rules': rules, 'sha': src_sha,
                                   'applications': ['%s %s:%s %s' % (r[0], r[1], r[2], r[3]) for r in log]})
        info['loc'] += (toks[e - 1].line - toks[k].line + 1)

    def _splice_fn(self, blk, item, out, info, novac):
        p = X.fn_parts(item)
        name = p['name']
        qual = blk.path.replace('impl ', '').replace(' :: fn ', '::').replace('fn ', '')
        inserts = []   # (index, order, tokens)  -> inserted BEFORE item[index]
        order = [0]

        def ins(idx, toks_):
            order[0] += 1
            inserts.append((idx, order[0], toks_))

        def lex_dir(d, text=None):
            lines = d.text_lines
            if not lines:
                return []
            toks_ = []
            for (ln, tx) in lines:
                tt, _ = lex(tx, 'unit', ln)
                if tt:
                    tt[0].ws = '\n' + tt[0].ws
                toks_.extend(tt)
            return toks_

        loops = X.source_loops(item, p['body'], p['body_end'])
        ret = None
        req_dirs = []
        clauses = []
        for d in blk.dirs:
            if d.kind == 'ret':
                ret = d.arg.strip()
        if ret:
            if p['arrow'] is None:
                raise Maintenance('%s: //@ret on a fn without return type' % qual)
            tend = p['where'] if p['where'] is not None else p['body']
            ins(p['arrow'] + 1, [Tok('punct', '(', ' ', 'unit', blk.line), Tok('ident', ret, '', 'unit', blk.line), Tok('punct', ':', '', 'unit', blk.line)])
            ins(tend, [Tok('punct', ')', '', 'unit', blk.line)])
        # clause groups in canonical order
        for kindname in ('requires', 'ensures', 'decreases'):
            ds = [d for d in blk.dirs if d.kind == kindname and d.text_lines]
            if not ds:
                continue
            toks_ = [Tok('ident', kindname, '\n    ', 'unit', ds[0].line)]
            for d in ds:
                body = lex_dir(d)
                # make sure groups are comma separated
                if body and body[-1].text != ',':
                    body.append(Tok('punct', ',', '', 'unit', d.text_lines[-1][0]))
                toks_.extend(body)
                clauses.append({'fn': qual, 'kind': kindname, 'tag': d.arg, 'unit_lines': (d.text_lines[0][0], d.text_lines[-1][0]),
                                'text': ' '.join(d.text().split())})
                if kindname == 'requires':
                    req_dirs.append(d)
            if kindname == 'decreases' and toks_[-1].text == ',':
                toks_.pop()
            toks_.append(Tok('punct', '', '\n', 'unit', ds[-1].line))
            ins(p['body'], toks_)
        for d in blk.dirs:
            if d.kind == 'loop':
                args = d.arg.split()
                kx = int(args[0])
                if kx < 1:
                    raise Maintenance('%s: //@loop %d' % (qual, kx))
                if kx > len(loops):
                    # the source has fewer loops than the unit annotates (a loop was replaced by straight-line code): a loop that is
                    # not there needs no invariant; the function's contract is checked all the same
                    info.setdefault('skipped_loop_annotations', []).append('%s: //@loop %d skipped: the source has %d loop(s) (unit line %d)' % (qual, kx, len(loops), d.line))
                    continue
                kw = loops[kx - 1]
                bo = X.loop_body_open(item, kw, p['body_end'])
                for a in args[1:]:
                    if a.startswith('iter='):
                        # label after `in`
                        j = kw + 1
                        while j < bo and not (item[j].kind == 'ident' and item[j].text == 'in'):
                            if item[j].text in OPEN:
                                j = match_close(item, j)
                            j += 1
                        if j >= bo:
                            raise Maintenance('%s: loop %d has no `in`' % (qual, kx))
                        ins(j + 1, [Tok('ident', a[5:], ' ', 'unit', d.line), Tok('punct', ':', '', 'unit', d.line)])
                ins(bo, lex_dir(d) + [Tok('punct', '', '\n', 'unit', d.line)])
                clauses.append({'fn': qual, 'kind': 'loop#%d' % kx, 'tag': '', 'unit_lines': (d.first_text_line(), d.text_lines[-1][0] if d.text_lines else d.line),
                                'text': ' '.join(d.text().split())[:400]})
            elif d.kind == 'at':
                where = d.arg
                m = re.match(r'(\w+)\s*(.*)$', where)
                w, rest = m.group(1), m.group(2).strip()
                body = lex_dir(d) + [Tok('punct', '', '\n', 'unit', d.line)]
                if w == 'body_start':
                    ins(p['body'] + 1, body)
                elif w == 'body_end':
                    ins(p['body_end'], body)
                elif w in ('loop_body_start', 'loop_body_end', 'before_loop', 'after_loop'):
                    kx = int(rest)
                    if kx < 1:
                        raise Maintenance('%s: //@at %s %d' % (qual, w, kx))
                    if kx > len(loops):
                        info.setdefault('skipped_loop_annotations', []).append('%s: //@at %s %d skipped: the source has %d loop(s) (unit line %d)' % (qual, w, kx, len(loops), d.line))
                        continue
                    kw = loops[kx - 1]
                    bo = X.loop_body_open(item, kw, p['body_end'])
                    bc = match_close(item, bo)
                    if w == 'loop_body_start':
                        ins(bo + 1, body)
                    elif w == 'loop_body_end':
                        ins(bc, body)
                    elif w == 'before_loop':
                        idx = kw
                        if kw >= 2 and item[kw - 1].text == ':' and item[kw - 2].kind == 'life':
                            idx = kw - 2
                        ins(idx, body)
                    else:
                        ins(bc + 1, body)
                elif w in ('before', 'after'):
                    m2 = re.match(r'`(.*)`\s*(\d+)?$', rest)
                    if not m2:
                        raise Maintenance('%s:%d: //@at %s needs `tokens`' % (self.path, d.line, w))
                    pat = X.Pat(m2.group(1))
                    ms = X.find_matches(pat, item, p['body'], p['body_end'])
                    ms = [mm for mm in ms if any(item[k].file != 'unit' for k in range(mm[0], mm[1]))]
                    nth = int(m2.group(2)) if m2.group(2) else None
                    if nth is None and len(ms) != 1:
                        raise Maintenance('%s: text anchor `%s` matches %d times (unit line %d)' % (qual, m2.group(1), len(ms), d.line))
                    if nth is not None and len(ms) < nth:
                        raise Maintenance('%s: text anchor `%s` #%d not found (unit line %d)' % (qual, m2.group(1), nth, d.line))
                    mm = ms[0] if nth is None else ms[nth - 1]
                    ins(mm[0] if w == 'before' else mm[1], body)
                else:
                    raise Maintenance('%s:%d: unknown //@at %s' % (self.path, d.line, w))
                clauses.append({'fn': qual, 'kind': 'hint@' + where, 'tag': '', 'unit_lines': (d.first_text_line(), d.text_lines[-1][0] if d.text_lines else d.line),
                                'text': ' '.join(d.text().split())[:200]})
        # apply insertions
        inserts.sort(key=lambda x: (x[0], x[1]))
        res = []
        pos = 0
        for (idx, _, toks_) in inserts:
            res.extend(item[pos:idx])
            pos = idx
            res.extend(toks_)
        res.extend(item[pos:])
        if res:
            res[0].ws = ''
        start = out.line
        out.tokens(res)
        out.raw('', ('unit', blk.line))
        end = out.line
        contracted = any(c['kind'] in ('requires', 'ensures') for c in clauses)
        is_slice = any(d.kind == 'slice' or (d.kind == 'rw' and 'R15' in d.arg.split()) for d in blk.dirs)
        info['functions'].append({'name': qual, 'file': blk.file, 'out_lines': (start, end), 'contracted': contracted, 'slice': is_slice, 'emitted_as': name,
                                  'n_requires': sum(1 for c in clauses if c['kind'] == 'requires'),
                                  'n_ensures': sum(1 for c in clauses if c['kind'] == 'ensures'),
                                  'n_loops': len(loops)})
        info['clauses'].extend(clauses)
        # vacuity probe
        if req_dirs and not novac:
            params = [t.copy() for t in item[p['lp'] + 1:p['rp']] if not (t.kind == 'ident' and t.text == 'mut')]
            gens = [t.copy() for t in item[p['gen_start']:p['gen_end']]]
            wh = []
            if p['where'] is not None:
                wh = [t.copy() for t in item[p['where']:p['body']]]
            req_text = '\n'.join(d.text() for d in req_dirs)
            req_text = re.sub(r'\bold\(\s*(\w+)\s*\)', r'\1', req_text)
            req_lines = [ln for d in req_dirs for (ln, _) in d.text_lines]
            vname = 'vac__' + name
            text = 'proof fn %s%s(%s) %s\n    requires %s\n    ensures false\n{}' % (
                vname, render(gens), ' '.join(render(params).split()), ' '.join(render(wh).split()), ' '.join(req_text.split()))
            vs = out.line
            for ltxt in text.split('\n'):
                out.raw(ltxt, ('unit', req_lines[0]))
            info['vac'].append({'fn': qual, 'probe': vname, 'out_lines': (vs, out.line - 1)})
        return res, contracted


def fold_const(item, log, file_toks=None):
    """R14: the initialiser of a const is replaced by the literal it evaluates to (integers, + - * / << >> and parentheses only)."""
    eq = next(i for i, t in enumerate(item) if t.text == '=')
    semi = max(i for i, t in enumerate(item) if t.text == ';')
    expr = item[eq + 1:semi]
    txt = []
    for t in expr:
        if t.kind == 'num':
            txt.append(re.sub(r'(_|[iu](8|16|32|64|128|size))', '', t.text))
        elif t.kind == 'punct' and t.text in ('+', '-', '*', '/', '<<', '(', ')'):
            txt.append('//' if t.text == '/' else t.text)
        elif t.kind == 'punct' and t.text == '>':
            txt.append('>')
        elif t.kind == 'ident' and file_toks is not None and t.text.isupper():
            # another integer const of the same file: folded recursively from its own initialiser
            try:
                (s2, k2, e2) = X.locate(file_toks, 'const ' + t.text)
            except Exception:
                raise Maintenance('R14: cannot fold const initialiser token `%s` (no such const in the file)' % t.text)
            sub = fold_const([x.copy() for x in file_toks[s2:e2]], log, file_toks)
            eq2 = next(i for i, x in enumerate(sub) if x.text == '=')
            txt.append(sub[eq2 + 1].text)
        else:
            raise Maintenance('R14: cannot fold const initialiser token `%s`' % t.text)
    src = ' '.join(txt).replace('> >', '>>')
    val = eval(src, {'__builtins__': {}}, {})
    log.append(('R14', expr[0].file, expr[0].line, 'const initialiser `%s` folded to %d' % (' '.join(t.text for t in expr), val)))
    lit = Tok('num', str(val), ' ', expr[0].file, expr[0].line)
    return item[:eq + 1] + [lit] + item[semi:]


class Emitter:
    def __init__(self):
        self.chunks = []
        self.line = 1          # next output line number (1-based) being written
        self.linemap = {}      # out line -> (file, line)
        self._at_line_start = True

    def raw(self, text, origin):
        if not self._at_line_start:
            self.chunks.append('\n')
            self.line += 1
        for i, l in enumerate(text.split('\n')):
            self.linemap[self.line] = origin
            self.chunks.append(l + '\n')
            self.line += 1
        self._at_line_start = True

    def tokens(self, toks):
        for t in toks:
            for ch in t.ws:
                if ch == '\n':
                    self.chunks.append('\n')
                    self.line += 1
                    self._at_line_start = True
                else:
                    self.chunks.append(ch)
            if t.text:
                if self.line not in self.linemap or self._at_line_start:
                    self.linemap[self.line] = (t.file, t.line)
                self._at_line_start = False
                self.chunks.append(t.text)
                nl = t.text.count('\n')
                for k in range(nl):
                    self.line += 1
                    self.linemap[self.line] = (t.file, t.line + k + 1)
        return

    def text(self):
        return ''.join(self.chunks)


class Assembled:
    def __init__(self, text, linemap, info, unit):
        self.text = text
        self.linemap = linemap
        self.info = info
        self.unit = unit

    def origin(self, out_line):
        return self.linemap.get(out_line)

    def fn_at(self, out_line):
        lines = self.text.split('\n')
        i = min(out_line, len(lines)) - 1
        pat = re.compile(r'^\s*(?:pub\s+)?(?:(?:open|closed|broadcast|uninterp|async|const|unsafe)\s+)*(?:(?:spec|proof|exec)\s+)?fn\s+(\w+)')
        while i >= 0:
            m = pat.match(lines[i])
            if m:
                return m.group(1)
            i -= 1
        return None
