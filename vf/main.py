import concurrent.futures as cf
import json
import os
import re
import subprocess
import sys
import time

from . import driver as D
from . import props as P
from .extract import Maintenance

VERIF = D.VERIF
EVID = os.path.join(VERIF, 'evidence')
REPLAYS = os.path.join(VERIF, 'replays')
KNOWN = os.path.join(VERIF, 'known_findings.json')


def load_known():
    if not os.path.exists(KNOWN):
        return []
    return json.load(open(KNOWN)).get('findings', [])


def finding_matches(k, prop, unit, fail):
    """A known finding is identified by property + unit + function + the failing obligation's identity
    (clause tag or message) -- a different failing obligation of the same property is still reported."""
    if k.get('status') != 'open' or k.get('property') != prop:
        return False
    if k.get('unit') != unit or k.get('function') != fail.get('function'):
        return False
    ob = k.get('obligation', {})
    if 'message' in ob and ob['message'] != fail.get('message'):
        return False
    if 'clause_tag' in ob:
        c = fail.get('clause') or {}
        if c.get('tag') != ob['clause_tag']:
            return False
    if 'source_text' in ob:
        txt = ' '.join(w.get('text') or '' for w in fail.get('where', []))
        wanted = ob['source_text'] if isinstance(ob['source_text'], list) else [ob['source_text']]   # a list: any of the listed statements
        if not any(w in txt for w in wanted):
            return False
    return True


def slug(s):
    return re.sub(r'[^A-Za-z0-9_.-]+', '_', s)[:80]


def write_replay(prop, unit_name, fail, idx, ce=None, verifier='verus'):
    d = os.path.join(REPLAYS, prop)
    os.makedirs(d, exist_ok=True)
    c = fail.get('clause') or {}
    ob_id = '%s/%s/%s' % (unit_name, fail.get('function'), (c.get('kind', '') + ':' + c.get('tag', '')) if c else slug(fail.get('message', '')))
    path = os.path.join(d, '%s__%s__%d.json' % (unit_name, slug(str(fail.get('function'))), idx))
    doc = {
        'property': prop, 'unit': unit_name, 'function': fail.get('function'), 'obligation': ob_id,
        'obligation_text': c.get('text') if c else None, 'message': fail.get('message'), 'verifier': verifier,
        'verifier_output': fail.get('rendered'), 'where': fail.get('where'),
        'inputs': ce.get('inputs') if ce else None,
        'native_replay': ce.get('replay') if ce else None,
        'replay_cmd': ce.get('cmd') if ce else './check %s   # re-runs the verifier on /repo; the obligation above is reported again while the code violates it' % prop,
        'failing_input_found': bool(ce and ce.get('inputs') is not None),
        'counterexample_search': (ce or {}).get('tried'),
    }
    with open(path, 'w') as f:
        json.dump(doc, f, indent=1)
    return path, doc['failing_input_found']


def show_extracted(units, which):
    import difflib
    for name, u in units.items():
        if which and name != which:
            continue
        asm = u.assemble()
        print('=' * 30, name)
        for e in asm.info['extraction']:
            print('-- %s  %s:%s  rules=%s sha=%s' % (e['item'], e['file'], e['lines'], ','.join(e['rules']), e['sha']))
            for a in e.get('applications', []):
                print('     ', a)
        print(asm.text)


def main(argv):
    if not argv or argv[0] in ('-h', '--help'):
        print(__doc__ or 'usage: check <id> [--tier quick|thorough]')
        return 2
    prop = argv[0]
    tier = os.environ.get('VERIF_TIER', 'quick')
    if '--tier' in argv:
        tier = argv[argv.index('--tier') + 1]
    seed = int(os.environ.get('VERIF_SEED', '0') or 0)
    # developer safeguard: tools/seed_eval.py patches /repo for a minute while it runs the checks against a seeded change;
    # an unrelated ./check started meanwhile waits instead of reading the patched tree
    lock = '/tmp/verif_repo_patched.lock'
    waited = 0
    while os.path.exists(lock) and not os.environ.get('VERIF_SEED_EVAL') and waited < 900:
        time.sleep(5)
        waited += 5
    t0 = time.time()
    try:
        units = D.load_units()
    except Exception as e:   # a unit template that cannot be loaded is a maintenance problem of the machinery, never an alarm
        print('UNDECIDED %s: the unit templates could not be loaded: %s' % (prop, str(e)[:300]))
        return 2
    if '--show-extracted' in argv:
        i = argv.index('--show-extracted')
        which = argv[i + 1] if i + 1 < len(argv) and not argv[i + 1].startswith('--') else None
        show_extracted({k: v for k, v in units.items() if prop in v.header['properties'] or prop == 'all'}, which)
        return 0
    if '--replay' in argv:
        path = argv[argv.index('--replay') + 1]
        from . import ce as CE
        return CE.replay_file(path)
    if prop not in P.PROPS:
        print('unknown or not-applicable property %s' % prop)
        return 2
    mine = [u for u in units.values() if prop in u.header['properties']]
    from . import kani as K
    kgroups = K.groups_for(prop, tier)
    if not mine and not kgroups:
        print('no unit serves %s' % prop)
        return 2
    outcomes = []
    with cf.ThreadPoolExecutor(max_workers=6) as ex:
        futs = [ex.submit(D.run_unit, u, tier) for u in mine]
        kfut = ex.submit(K.run_groups, prop, kgroups, tier) if kgroups else None
        mfuts = []
        if tier == 'thorough':
            mfuts = [(u, ex.submit(D.run_mutants, u)) for u in mine]
        for f in futs:
            outcomes.append(f.result())
        kout = kfut.result() if kfut else None
        mutant_results = {u.name: f.result() for (u, f) in mfuts}
    known = load_known()
    violations = []
    undecided = []
    known_hits = []
    for o in outcomes:
        if o.status == 'undecided':
            undecided.append((o.name, o.reasons))
        # failed obligations are reported even when another part of the unit is undecided
        for fl in o.failed:
            k = next((k for k in known if finding_matches(k, prop, o.name, fl)), None)
            if k:
                known_hits.append((k, o.name, fl))
            else:
                violations.append((o.name, fl, 'verus'))
    surviving = []
    for uname, res in mutant_results.items():
        for (mname, item, status, msgs, reasons) in res:
            if status != 'violation':
                surviving.append('%s/%s (%s): %s %s' % (uname, mname, item, status, reasons))
    if surviving:
        undecided.append(('canaries', ['canary mutant not rejected (contract lost its teeth): ' + s for s in surviving]))
    # native exploration through the executable contract mirrors: thorough tier, and as a fall-back when a unit is
    # undecided (so that a change which also breaks the extraction shape can still be caught with a concrete input)
    native = []
    from . import ce as CE
    und_units = set(o.name for o in outcomes if o.status == 'undecided')
    if tier == 'thorough' or und_units:
        seen = set()
        for (uname, fn), cands in CE.SEARCH.items():
            if uname not in [o.name for o in outcomes]:
                continue
            if tier != 'thorough' and uname not in und_units:
                continue
            for (module, contract, types) in cands:
                if (module, contract) in seen:
                    continue
                seen.add((module, contract))
                r = CE.run_search(module, contract, types, seed, n=int(os.environ.get('VERIF_SEARCH_CASES', '2000000' if tier == 'thorough' else '400000')))
                native.append({'contract': module + '::' + contract, 'unit': uname, 'result': (r.get('stdout') or r.get('error') or '')[:160]})
                if r.get('found') is not None:
                    binp = r['cmd'].split()[0]
                    rcmd = ' '.join([binp, module, contract] + [str(x) for x in r['found']])
                    fl = {'unit': uname, 'function': contract, 'message': 'native search through the executable contract mirror found a violating input',
                          'clause': {'kind': 'mirror', 'tag': 'P %s %s' % (prop, contract), 'text': 'executable restatement of the Verus contract (hooks/%s.rs)' % module},
                          'rendered': r.get('stdout'), 'where': [{'origin': 'hooks/%s.rs' % module, 'text': contract, 'label': None, 'out_line': 0}],
                          'ce': {'inputs': {'module': module, 'contract': contract, 'types': types.split(','), 'args': r['found'], 'found_by': 'native boundary-biased random search, seed %d' % seed},
                                 'replay': {'cmd': rcmd, 'stdout': r.get('verdict')}, 'cmd': rcmd}}
                    violations.append((uname, fl, 'native-search'))
    if kout:
        for kv in kout['violations']:
            k = next((k for k in known if finding_matches(k, prop, kv['unit'], kv)), None)
            if k:
                known_hits.append((k, kv['unit'], kv))
            else:
                violations.append((kv['unit'], kv, 'kani'))
        for r in kout['undecided']:
            undecided.append(('kani', [r]))

    # ---------------- evidence
    ev = build_evidence(prop, tier, seed, outcomes, kout, mutant_results, violations, undecided, known_hits, time.time() - t0)
    ev['coverage']['native_search_exploration'] = native
    # a run made by tools/seed_eval.py with a property-breaking change applied to /repo must not overwrite the evidence of the
    # unchanged tree (the evidence files are committed): it writes under .build instead
    evid_dir = os.path.join(VERIF, '.build', 'evidence_seed_eval') if os.environ.get('VERIF_SEED_EVAL') else EVID
    os.makedirs(evid_dir, exist_ok=True)
    with open(os.path.join(evid_dir, prop + '.json'), 'w') as f:
        json.dump(ev, f, indent=1)

    for (k, uname, fl) in known_hits:
        print('KNOWN-FINDING: property=%s %s' % (prop, k.get('what', k.get('id', ''))))
    rc = 0
    if violations:
        from . import ce as CE
        for i, (uname, fl, verifier) in enumerate(violations[:8]):
            cex = fl.get('ce') or CE.search(prop, uname, fl, seed)
            path, found = write_replay(prop, uname, fl, i, cex, verifier)
            c = fl.get('clause') or {}
            print('  failed obligation: unit=%s fn=%s: %s%s' % (uname, fl.get('function'), fl.get('message'),
                                                             (' [clause %s %s]' % (c.get('kind'), c.get('tag'))) if c else ''))
            for w in (fl.get('where') or [])[:3]:
                print('      at %s  %s' % (w.get('origin'), (w.get('text') or '')[:140]))
            print('VIOLATION property=%s replay=%s%s' % (prop, path, '' if found else ' no-failing-input-found'))
        rc = 1
    elif undecided:
        for (n, rs) in undecided:
            for r in rs:
                print('UNDECIDED %s: %s' % (n, r[:1500]))
        rc = 2
    else:
        print('OK property=%s tier=%s obligations=%d discharged=%d units=%s wall=%.1fs' % (
            prop, tier, ev['coverage']['obligations'], ev['coverage']['discharged'],
            ','.join([o.name for o in outcomes] + (['kani:%d' % len(kout['harnesses'])] if kout else [])), time.time() - t0))
    return rc


def build_evidence(prop, tier, seed, outcomes, kout, mutant_results, violations, undecided, known_hits, wall):
    obligations = 0
    discharged = 0
    fns = []
    pobs = []
    extraction = []
    solver = {}
    trusted = ['Z3 via verus 0.2026.09.13 and its rustc front end']
    assumptions = []
    samples = []
    vac = 0
    cmds = []
    clauses_total = 0
    rules = set()
    # a function whose only failing obligations are listed open findings is not claimed proved: it is counted apart, not among the obligations
    known_fns = set((uname, fl.get('function')) for (_, uname, fl) in known_hits)
    known_fn_failures = []
    for o in outcomes:
        if o.res:
            cmds.append(o.res.cmd)
            for f in o.res.functions:
                short = f['function'].split('::')[-1]
                if short.startswith('vac__'):
                    continue
                if not f['success'] and (o.name, short) in known_fns:
                    known_fn_failures.append('%s::%s' % (o.name, short))
                    continue
                obligations += 1
                if f['success']:
                    discharged += 1
                solver['%s::%s' % (o.name, f['function'])] = f['ms']
        if o.asm:
            info = o.asm.info
            for fn in info['functions']:
                if fn['contracted']:
                    if fn.get('slice'):
                        fns.append('slice of %s: statements extracted as `%s` (%s) [unit %s]' % (fn['name'], fn.get('emitted_as'), fn['file'], o.name))
                    else:
                        fns.append('%s (%s) [unit %s]' % (fn['name'], fn['file'], o.name))
            for c in info['clauses']:
                clauses_total += 1
                if c['tag'].startswith('P ') and (prop in (c['tag'].split() + [''])[1].split(',')):
                    pobs.append('%s/%s/%s: %s' % (o.name, c['fn'], c['tag'], c['text'][:300]))
            for e in info['extraction']:
                extraction.append({k: e[k] for k in ('item', 'file', 'lines', 'rules', 'sha')})
            rules |= info['rules']
            u = o.asm.unit
            for t in u.header.get('trusted', []):
                trusted.append('%s: %s' % (o.name, t))
            for a in u.header.get('assume', []):
                assumptions.append('%s: %s' % (o.name, a))
            vac += o.vac_ok
            # lemma P obligations declared in header
            for l in u.header.get('plemma', []):
                parts = l.split(None, 1)
                if parts and parts[0] == prop:
                    pobs.append('%s/%s' % (o.name, parts[1]))
    trusted.append('extraction rules applied: %s (R3,R6,R7,R8,R11-R13 are trusted rewrites; the others are annotation- or name-only)' % ','.join(sorted(rules)))
    bounded = []
    kh = []
    if kout:
        for h in kout['harnesses']:
            kh.append(h)
            if h.get('bounded'):
                bounded.append('%s (%s)' % (h['name'], h.get('bound')))
                continue
            obligations += h.get('checks', 0)
            discharged += h.get('checks', 0) - h.get('failed', 0) if h.get('status') == 'ok' else 0
            solver['kani::' + h['name']] = int(h.get('wall_s', 0) * 1000)
            fns.extend(x for x in h.get('functions', []) if x not in fns)
            if h.get('clause'):
                pobs.append('kani/%s: %s' % (h['name'], h['clause']))
        trusted.extend(kout.get('trusted', []))
        assumptions.extend(kout.get('assumptions', []))
        cmds.extend(kout.get('cmds', []))
    samples = pobs[:6] if pobs else ['(no property-tagged clause)']
    cov = {
        'obligations': obligations, 'discharged': discharged,
        'checker_cmd': ' ; '.join(cmds)[:1500] or 'none',
        'trusted_base': trusted,
        'functions_under_contract': fns,
        'property_obligations': pobs,
        'obligation_unit': 'one obligation = one Verus proof query (exec fn, proof fn/lemma or spec-fn termination check) as listed in the back end\'s per-function report, '
                           'plus every individual CBMC check of each complete Kani harness; vacuity probes and bounded harnesses are not counted',
        'contract_clauses_spliced': clauses_total,
        'extraction': extraction,
        'solver_time_ms': solver,
        'vacuity_probes_failed_as_required': vac,
        'bounded': bounded,
        'kani_harnesses': kh,
        'canary_mutants': {k: [(m[0], m[2]) for m in v] for k, v in mutant_results.items()},
        'samples': samples,
        'not_decided': P.PROPS[prop]['not_decided'],
        'undecided_reasons': [r[:300] for (_, rs) in undecided for r in rs][:10],
        'known_findings_seen': [k.get('id') for (k, _, _) in known_hits],
        'functions_failing_only_as_listed_known_findings': sorted(set(known_fn_failures)),
        'explanation': ('%d function(s) fail exactly the obligations listed as open findings in known_findings.json (%s); they are reported as KNOWN-FINDING lines, not counted among the obligations and not claimed proved' % (len(set(known_fn_failures)), ', '.join(sorted(set(k.get('id') for (k, _, _) in known_hits))))) if known_hits else 'every obligation generated from the current tree was discharged',
    }
    return {'property_id': prop, 'tier': tier, 'seed': seed, 'level': 'proof', 'wall_s': round(wall, 2), 'violations': len(violations),
            'coverage': cov, 'assumptions': assumptions}
